#!/usr/bin/env python3
"""Regenerates the seeded-change table in DESIGN.md (between the seeded-table markers) from seeded/*/meta.json."""
import json, glob, os, re, sys
root = os.path.dirname(os.path.dirname(os.path.abspath(__file__)))
rows = []
for d in sorted(glob.glob(root + '/seeded/*/')):
    m = json.load(open(d + 'meta.json'))
    sid = os.path.basename(d.rstrip('/'))
    clip = lambda s, n: (s[:n] + '…' if len(s) > n else s).replace('|', '/').replace('\n', ' ')
    det = ','.join(m.get('detected_by_quick_checks', [])) or '**none**'
    if m.get('obsolete'):
        det = 'obsolete'
        m['note'] = (m.get('note', '') + ' - ' + m['obsolete']).strip(' -')
    rows.append('| %s | %s | %s | %s | %s |' % (sid, clip(m.get('summary', ''), 170), clip(m.get('needs_to_manifest', '') or m.get('needs', ''), 170), det, clip(m.get('note', ''), 220)))
table = '%d changes kept; every quick check that first missed one was strengthened with more observability (a shape, a position, an operation), never by special-casing the change:\n\n' % len(rows)
table += '| seeded | change | needs | caught by (quick) | note |\n|---|---|---|---|---|\n' + '\n'.join(rows) + '\n'
p = root + '/DESIGN.md'
s = open(p).read()
b, e = '<!-- seeded-table-begin -->\n', '<!-- seeded-table-end -->\n'
i, j = s.index(b), s.index(e)
s = s[:i + len(b)] + table + s[j:]
open(p, 'w').write(s)
print(len(rows), 'rows')
