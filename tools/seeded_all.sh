#!/bin/bash
# usage: tools/seeded_all.sh [ids...]   re-validates every kept seeded change against /repo HEAD in a scratch worktree and
# runs the quick check of its property against it; prints one line per change: caught / MISSED / expected-miss / stale
cd "$(dirname "$0")/.." || exit 2
ids="${*:-$(ls seeded)}"
miss=0
for id in $ids; do
  d=seeded/$id
  [ -f $d/patch.diff ] || continue
  obs=$(python3 -c "import json;print(json.load(open('$d/meta.json')).get('obsolete',''))")
  if [ -n "$obs" ]; then echo "obsolete $id ($obs)"; continue; fi
  exp=$(python3 -c "import json;m=json.load(open('$d/meta.json'));print(','.join(m.get('detected_by_quick_checks',[])) or 'none')")
  # a change kept under one property may be caught by another property's check only (it is outside the first one's domain):
  # then the checks listed in detected_by_quick_checks are run instead of the property's own
  own=$(python3 -c "import json;m=json.load(open('$d/meta.json'));d=m.get('detected_by_quick_checks',[]);print('' if (not d or m['property'] in d) else ' '.join(d))")
  out=$(tools/try_seeded.sh $d $own 2>&1)
  if echo "$out" | grep -q 'patch does not apply'; then echo "stale   $id (patch no longer applies to HEAD)"; continue; fi
  v=$(echo "$out" | grep '^VALIDATE' | grep -c 'patched_demo=\[FAIL\] suite-ok')
  rc=$(echo "$out" | grep '^CHECK' | sed 's/.*exit=\([0-9]*\).*/\1/' | sort -n | grep -m1 '^1$' || echo "$out" | grep '^CHECK' | sed 's/.*exit=\([0-9]*\).*/\1/' | head -1)
  if [ "$v" != 1 ]; then echo "INVALID $id :: $(echo "$out" | grep '^VALIDATE' | cut -c1-200)"; continue; fi
  if [ "$rc" = 1 ]; then echo "caught  $id"
  elif [ "$exp" = none ]; then echo "expected-miss $id (outside the property's quantifier, see meta.json)"
  else echo "MISSED  $id rc=$rc"; miss=$((miss+1)); fi
done
echo "seeded_all done: $miss unexpected misses"
