#!/bin/bash
# usage: tools/sweep.sh <tier> <seed>...   runs every registered check at each seed; prints one line per (check, seed) that is not a clean exit 0
cd "$(dirname "$0")/.." || exit 2
tier=$1; shift
props=$(python3 -c "import json;print(' '.join(c['property_id'] for c in json.load(open('MANIFEST.json'))['checks']))")
bad=0
for seed in "$@"; do
  for p in $props; do
    out=$(VERIF_SEED=$seed ./check $p $tier 2>&1); rc=$?
    line=$(echo "$out" | tail -1)
    if [ $rc -ne 0 ]; then bad=$((bad+1)); echo "NONZERO seed=$seed $p rc=$rc :: $line"; echo "$out" | grep -A3 '^VIOLATION\|^INCONCLUSIVE' | head -12; else echo "ok seed=$seed $line"; fi
  done
done
echo "sweep done: $bad non-zero exits"
