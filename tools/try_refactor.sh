#!/bin/bash
# usage: try_refactor.sh <dir-with-patch.diff+meta.json> [props...]
# A behaviour-preserving change of the library must leave every check silent: applies the patch in a scratch worktree of /repo HEAD,
# confirms build + suite == stable baseline, then runs the quick checks (default: all 20) against it and prints every non-zero exit.
set -u
export GOFLAGS=-mod=mod GOPROXY=off GOSUMDB=off GOTOOLCHAIN=local
D=$(readlink -f "$1"); shift
VDIR=$(readlink -f "$(dirname "$0")/..")
PROPS="${*:-$(python3 -c "import json;print(' '.join(c['property_id'] for c in json.load(open('$VDIR/MANIFEST.json'))['checks']))")}"
W=/tmp/refwt.$$
git -C /repo worktree add -q --detach $W HEAD || exit 2
cleanup(){ git -C /repo worktree remove --force $W 2>/dev/null; rm -rf $W /tmp/refbuild.$$ /tmp/refout.$$; }
trap cleanup EXIT
cd $W
git apply "$D/patch.diff" || { echo "RESULT $(basename $D): patch does not apply"; exit 3; }
build=$(go build ./... 2>&1 | tail -3)
suite=$(go test -json -vet=off -count=1 ./... 2>/dev/null | python3 -c "
import json,sys
base=json.load(open('/root/.vp/BASELINE.json')); stable=set(base['stable_pass']); p=set()
for l in sys.stdin:
    try: e=json.loads(l)
    except Exception: continue
    if e.get('Action')=='pass' and 'Test' in e: p.add(e['Package']+'::'+e['Test'])
m=stable-p
print('suite-ok' if not m else 'suite-BROKEN missing=%d %s'%(len(m),sorted(m)[:3]))")
echo "VALIDATE $(basename $D): build=[${build}] ${suite}"
cd "$VDIR"
export VERIF_REPO=$W VERIF_BUILD_DIR=/tmp/refbuild.$$ VERIF_OUT_DIR=/tmp/refout.$$
mkdir -p $VERIF_BUILD_DIR
bad=0
for p in $PROPS; do
  out=$(./check $p quick 2>&1); rc=$?
  if [ $rc -ne 0 ]; then bad=$((bad+1)); echo "ALARM $(basename $D) $p rc=$rc :: $(echo "$out" | grep -A2 '^VIOLATION\|^INCONCLUSIVE' | grep 'what:\|INCONCLUSIVE' | head -3 | cut -c1-300)"; fi
done
echo "REFACTOR $(basename $D): $bad alarms over $(echo $PROPS | wc -w) checks"
