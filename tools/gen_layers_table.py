#!/usr/bin/env python3
"""Regenerates the layer table in DESIGN.md (between the layers-table markers) from `vdrive -describe`."""
import json, subprocess, os, sys
root = os.path.dirname(os.path.dirname(os.path.abspath(__file__)))
drv = sys.argv[1] if len(sys.argv) > 1 else root + '/.build/vdrive-plain'
env = dict(os.environ, VERIF_DIR=root)
rows = ['| property | builds (quick / thorough) | layer | cases quick | cases thorough | |', '|---|---|---|---|---|---|']
for i in range(1, 21):
    pid = 'C%02d' % i
    q = json.loads(subprocess.check_output([drv, '-prop', pid, '-tier', 'quick', '-describe'], env=env))
    t = json.loads(subprocess.check_output([drv, '-prop', pid, '-tier', 'thorough', '-describe'], env=env))
    tl = {l['name']: l for l in t['layers']}
    first = True
    for l in q['layers']:
        b = '%s / %s' % ('+'.join(q['builds']), '+'.join(t['builds'])) if first else ''
        rows.append('| %s | %s | %s | %d | %d | %s |' % (pid if first else '', b, l['name'], l['cases'], tl[l['name']]['cases'], 'exhaustive, seed-independent' if l['exhaustive'] else 'seeded'))
        first = False
p = root + '/DESIGN.md'
s = open(p).read()
b, e = '<!-- layers-table-begin -->\n', '<!-- layers-table-end -->\n'
i, j = s.index(b), s.index(e)
s = s[:i + len(b)] + '\n'.join(rows) + '\n' + s[j:]
open(p, 'w').write(s)
print(len(rows) - 2, 'layers')
