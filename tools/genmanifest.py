#!/usr/bin/env python3
"""Writes MANIFEST.json from the table below (kept in one place so the manifest is always valid)."""
import json, subprocess, os
V='/verif'
props=[json.loads(l) for l in open(f'{V}/properties.jsonl')]
built=json.load(open(f'{V}/tools/built.json'))
hooks_commits=[]
checks=[]; na=[]
for p in props:
    i=p['id']
    if i in built:
        b=built[i]
        checks.append({
          "property_id": i,
          "quick_cmd": f"./check {i} quick",
          "thorough_cmd": f"./check {i} thorough",
          "evidence_file": f"/verif/evidence/{i}.json",
          "replay_cmd_template": f"./check {i} --replay {{path}}",
          "engine": "vsup",
          "level_claimed": {"category":"exploration","text":b["text"],"design_ref":b.get("ref","DESIGN.md §5 "+i)},
          "level_note": b["note"],
          "technique": b["technique"],
        })
    else:
        na.append({"property_id": i, "reason": "check not built yet in this session (runtime monitoring applies; see DESIGN.md §5)"})
m={
 "version":1,
 "setup_cmd":"cd /verif && export GOFLAGS=-mod=mod GOPROXY=off GOSUMDB=off GOTOOLCHAIN=local && mkdir -p .build && (cd harness && go build -o ../.build/vsup ./cmd/vsup && go build -tags verif -o ../.build/vdrive-plain ./cmd/vdrive)",
 "hooks":{"guard":"verif","enable":"go build -tags verif (the harness builds /repo through a replace directive; no hook source exists in /repo: every observation is made at the public API boundary)",
          "baseline_off_cmd":"/verif/tools/baseline.sh","source_commits":hooks_commits,"add_only":True},
 "engines":[{"name":"vsup","path":"/verif/harness/cmd/vsup","serves_properties":[c["property_id"] for c in checks],
             "kind_free_text":"supervisor: builds the child (vdrive) in the plain/race/checkptr/asan variants from /repo's working tree, runs sharded child processes under monitors with a write-ahead pending record, attributes crashes, merges observations, applies known_findings.jsonl, writes evidence"}],
 "checks":checks,
 "not_applicable":na,
 "notes":"All checks are runtime monitors over generated executions of the real library (see DESIGN.md). Exit 0 = held on everything observed, 1 = VIOLATION, 3 = INCONCLUSIVE (coverage floor missed / unreproducible crash), 2 = infrastructure error.",
}
json.dump(m,open(f'{V}/MANIFEST.json','w'),indent=1)
print("checks:",len(checks),"not_applicable:",len(na))
