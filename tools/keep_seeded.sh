#!/bin/bash
# usage: keep_seeded.sh <agent-out-dir> <detected-by: "C01,C05"|"none"> "<note>"
D=$1; DET=$2; NOTE=${3:-}
ID=$(python3 -c "import json;m=json.load(open('$D/meta.json'));print(m['property']+'-'+m.get('variant','x'))")
mkdir -p /verif/seeded/$ID
cp $D/patch.diff /verif/seeded/$ID/patch.diff
cp $D/demo_test.go /verif/seeded/$ID/demo_test.go
python3 - "$D" "$DET" "$NOTE" "$ID" <<'PY'
import json,sys,subprocess
d,det,note,i=sys.argv[1:5]
m=json.load(open(d+'/meta.json'))
head=subprocess.check_output(['git','-C','/repo','log','--format=%h','-1']).decode().strip()
m.update({"breaks":m['property'],"needs_to_manifest":m.get('needs',''),
 "confirmed":{"repo_head":head,"how":"tools/try_seeded.sh: scratch worktree of /repo HEAD; patch applied; go build ok; repository suite == stable baseline; demo test FAILS with the patch and PASSES without it","result":"confirmed"},
 "detected_by_quick_checks":[x for x in det.split(',') if x and x!='none'],
 "note":note})
json.dump(m,open(f'/verif/seeded/{i}/meta.json','w'),indent=1)
print("kept",i,m["detected_by_quick_checks"])
PY
