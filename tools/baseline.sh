#!/bin/bash
# Runs the repository's own suite (hooks guard OFF: no -tags verif) and compares the set of passing
# tests with the pinned stable baseline. Exit 0 iff every stable-pass test still passes.
export GOFLAGS=-mod=mod GOPROXY=off GOSUMDB=off GOTOOLCHAIN=local
cd /repo || exit 2
out=$(mktemp)
go test -json -vet=off -count=1 -timeout 25m ./... > "$out" 2>/dev/null
python3 - "$out" <<'PY'
import json,sys
base=json.load(open('/root/.vp/BASELINE.json'))
stable=set(base['stable_pass'])
passed=set(); failed=set()
for l in open(sys.argv[1]):
    try: e=json.loads(l)
    except Exception: continue
    if 'Test' not in e: continue
    k=e['Package']+'::'+e['Test']
    if e.get('Action')=='pass': passed.add(k)
    elif e.get('Action')=='fail': failed.add(k)
missing=sorted(stable-passed)
print(f"baseline: stable={len(stable)} passed_now={len(passed)} failed_now={len(failed)} stable_missing={len(missing)}")
for m in missing[:40]: print("  MISSING", m)
newfail=sorted(failed-set(base.get('always_fail',[])))
for m in newfail[:40]: print("  NEWFAIL", m)
sys.exit(1 if missing or newfail else 0)
PY
rc=$?
rm -f "$out"
exit $rc
