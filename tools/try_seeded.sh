#!/bin/bash
# usage: try_seeded.sh <dir-with-patch.diff+demo_test.go+meta.json> [props to check...]
# 1. confirms in a scratch worktree that the change compiles, passes the suite, and that the demo fails with / passes without it
# 2. runs the quick checks of the given properties (default: the one in meta.json) against that patched scratch worktree
#    (VERIF_REPO override; /repo itself is never touched, so background sweeps are not disturbed)
set -u
export GOFLAGS=-mod=mod GOPROXY=off GOSUMDB=off GOTOOLCHAIN=local
D=$(readlink -f "$1"); shift
VDIR=$(readlink -f "$(dirname "$0")/..")
PROP=$(python3 -c "import json,sys;print(json.load(open('$D/meta.json'))['property'])")
VAR=$(python3 -c "import json,sys;print(json.load(open('$D/meta.json')).get('variant','x'))")
PROPS="${*:-$PROP}"
W=/tmp/seedwt.$$
git -C /repo worktree add -q --detach $W HEAD || exit 2
cleanup(){ git -C /repo worktree remove --force $W 2>/dev/null; rm -rf $W; }
trap cleanup EXIT
cd $W
res="{}"
cp "$D/demo_test.go" ./zz_seeded_demo_test.go
clean_demo=$(go test -vet=off -count=1 -run "TestSeeded_" . 2>&1 | tail -1)
if ! git apply "$D/patch.diff" 2>/tmp/apply.err; then
  if ! git apply -3 "$D/patch.diff" 2>>/tmp/apply.err; then echo "RESULT $PROP/$VAR: patch does not apply: $(head -3 /tmp/apply.err)"; exit 3; fi
fi
build=$(go build ./... 2>&1 | tail -3)
patched_demo=$(go test -vet=off -count=1 -run "TestSeeded_" . 2>&1 | tail -1)
rm -f zz_seeded_demo_test.go
suite=$(go test -json -vet=off -count=1 ./... 2>/dev/null | python3 -c "
import json,sys
base=json.load(open('/root/.vp/BASELINE.json')); stable=set(base['stable_pass']); p=set()
for l in sys.stdin:
    try: e=json.loads(l)
    except Exception: continue
    if e.get('Action')=='pass' and 'Test' in e: p.add(e['Package']+'::'+e['Test'])
m=stable-p
print('suite-ok' if not m else 'suite-BROKEN missing=%d %s'%(len(m),sorted(m)[:3]))")
echo "VALIDATE $PROP/$VAR: build=[${build}] clean_demo=[${clean_demo}] patched_demo=[${patched_demo}] ${suite}"
cd "$VDIR"
# run the checks against the patched scratch worktree (never against /repo, which other runs may be using)
export VERIF_REPO=$W VERIF_BUILD_DIR=/tmp/seedbuild.$$ VERIF_OUT_DIR=/tmp/seedout.$$
mkdir -p $VERIF_BUILD_DIR
for p in $PROPS; do
  out=$(./check $p quick 2>&1); rc=$?
  nviol=$(echo "$out" | grep -c '^VIOLATION')
  echo "CHECK $PROP/$VAR with $p: exit=$rc violations=$nviol :: $(echo "$out" | grep -A2 '^VIOLATION' | grep 'what:' | head -2 | cut -c1-260)"
done
rm -rf $VERIF_BUILD_DIR $VERIF_OUT_DIR
