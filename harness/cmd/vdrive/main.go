// vdrive is the CHILD process: it runs one shard of one property's workload under the monitors
// and writes what it observed to <out>/<build>-<shard>.json. It never produces a verdict.
package main

import (
	"encoding/json"
	"flag"
	"fmt"
	"os"
	"path/filepath"
	"runtime/debug"
	"strconv"
	"syscall"

	"verif/harness/mon"
)

func main() {
	prop := flag.String("prop", "", "property id")
	tier := flag.String("tier", "quick", "quick|thorough")
	seed := flag.Int64("seed", 1, "VERIF_SEED")
	shard := flag.Int("shard", 0, "shard index")
	nshards := flag.Int("nshards", 1, "number of shards")
	out := flag.String("out", "", "output directory")
	build := flag.String("build", "plain", "build variant label")
	only := flag.String("only", "", "run only layer:index")
	after := flag.String("after", "", "resume after layer:index (cases up to and including it are skipped)")
	describe := flag.Bool("describe", false, "print the property's metadata as JSON and exit")
	verbose := flag.Bool("v", false, "print findings as they occur")
	flag.Parse()

	p := mon.Registry[*prop]
	if p == nil {
		fmt.Fprintf(os.Stderr, "unknown property %q\n", *prop)
		os.Exit(2)
	}
	if *describe {
		d := map[string]any{"id": p.ID, "rule": p.Rule, "assumptions": p.Assumptions, "watchdog_s": p.WatchdogS, "one_shard_builds": p.OneShard}
		d["builds"] = []string{"plain"}
		if p.Builds != nil {
			d["builds"] = p.Builds(*tier)
		}
		if p.Floors != nil {
			d["floors"] = p.Floors(*tier)
		}
		var ls []map[string]any
		for _, l := range p.Layers(*tier) {
			ls = append(ls, map[string]any{"name": l.Name, "cases": l.N, "exhaustive": l.Exhaustive})
		}
		d["layers"] = ls
		b, _ := json.Marshal(d)
		fmt.Println(string(b))
		return
	}
	debug.SetMaxStack(256 << 20)
	// address-space cap: a runaway allocation ends as an attributed "out of memory" death instead of exhausting the machine
	if mb, err := strconv.Atoi(os.Getenv("VERIF_AS_LIMIT_MB")); err == nil && mb > 0 {
		lim := syscall.Rlimit{Cur: uint64(mb) << 20, Max: uint64(mb) << 20}
		_ = syscall.Setrlimit(syscall.RLIMIT_AS, &lim)
	}
	name := fmt.Sprintf("%s-%d", *build, *shard)
	pend := ""
	if *out != "" {
		_ = os.MkdirAll(*out, 0o755)
		pend = filepath.Join(*out, name+".pending")
	}
	c := mon.NewCtx(*prop, *tier, *seed, *build, *shard, *nshards, pend)
	c.Verbose = *verbose
	c.Replay = *only != ""
	res := mon.RunShard(c, p, *only, *after)
	b, err := json.Marshal(res)
	if err != nil {
		fmt.Fprintln(os.Stderr, "marshal result:", err)
		os.Exit(2)
	}
	if *out == "" {
		for _, f := range res.Findings {
			fb, _ := json.Marshal(f)
			fmt.Println(string(fb))
		}
		fmt.Printf("cases=%d evals=%d findings=%d distinct=%d nontrivial=%d\n", res.Cases, res.Evals, len(res.Findings), len(res.FPs), len(res.NonTriv))
		return
	}
	tmp := filepath.Join(*out, name+".json.tmp")
	if err := os.WriteFile(tmp, b, 0o644); err != nil {
		fmt.Fprintln(os.Stderr, err)
		os.Exit(2)
	}
	_ = os.Rename(tmp, filepath.Join(*out, name+".json"))
}
