// vsup is the SUPERVISOR: it builds the child in the required build variants from /repo's current
// working tree, spawns and watches the children, classifies abnormal exits through the write-ahead
// pending record, merges what the monitors observed, applies the known-findings file, writes the
// evidence file and is the only thing that produces a verdict.
//
//	vsup <Cxx> quick|thorough
//	vsup <Cxx> --replay <file>
package main

import (
	"bufio"
	"bytes"
	"context"
	"encoding/json"
	"fmt"
	"os"
	"os/exec"
	"path/filepath"
	"regexp"
	"runtime"
	"sort"
	"strconv"
	"strings"
	"sync"
	"syscall"
	"time"

	"verif/harness/trace"
)

var (
	verifDir   = envOr("VERIF_DIR", "/verif")
	harnessDir = filepath.Join(verifDir, "harness")
	buildDir   = envOr("VERIF_BUILD_DIR", filepath.Join(verifDir, ".build"))
)

func envOr(k, d string) string {
	if v := os.Getenv(k); v != "" {
		return v
	}
	return d
}

type meta struct {
	ID          string           `json:"id"`
	Builds      []string         `json:"builds"`
	Floors      map[string]int64 `json:"floors"`
	Rule        string           `json:"rule"`
	Assumptions []string         `json:"assumptions"`
	WatchdogS   int              `json:"watchdog_s"`
	OneShard    []string         `json:"one_shard_builds"`
}

type knownEntry struct {
	Status    string `json:"status"` // known | fixed
	Property  string `json:"property"`
	Signature string `json:"signature"`
	What      string `json:"what"`
	Commit    string `json:"commit,omitempty"`
	Witness   any    `json:"witness,omitempty"`
	Tier      string `json:"tier,omitempty"` // when set, the finding is only observable in that tier (e.g. needs the asan build)
}

func goEnv() []string {
	env := os.Environ()
	env = append(env, "GOFLAGS=-mod=mod", "GOPROXY=off", "GOSUMDB=off", "GOTOOLCHAIN=local", "CGO_ENABLED=1")
	return env
}

func buildArgs(variant string) []string {
	a := []string{"build", "-tags", "verif"}
	switch variant {
	case "plain":
	case "race":
		a = append(a, "-race")
	case "ckptr":
		a = append(a, "-gcflags=all=-d=checkptr")
	case "asan":
		a = append(a, "-asan")
	case "cover":
		a = append(a, "-cover", "-coverpkg=github.com/go-ap/activitypub,verif/harness/cmd/vdrive")
	}
	if alt := altModfile(); alt != "" {
		a = append(a, "-modfile="+alt)
	}
	a = append(a, "-o", filepath.Join(buildDir, "vdrive-"+variant), "./cmd/vdrive")
	return a
}

// altModfile: for the seeded-change self-test only (tools/try_seeded.sh), VERIF_REPO points the replace directive at a
// scratch worktree instead of /repo. Registered MANIFEST commands never set it.
func altModfile() string {
	repo := os.Getenv("VERIF_REPO")
	if repo == "" || repo == "/repo" {
		return ""
	}
	b, err := os.ReadFile(filepath.Join(harnessDir, "go.mod"))
	if err != nil {
		return ""
	}
	alt := filepath.Join(buildDir, "go.alt.mod")
	_ = os.WriteFile(alt, []byte(strings.Replace(string(b), "=> /repo", "=> "+repo, 1)), 0o644)
	if sum, err := os.ReadFile(filepath.Join(harnessDir, "go.sum")); err == nil {
		_ = os.WriteFile(filepath.Join(buildDir, "go.alt.sum"), sum, 0o644)
	}
	return alt
}

func build(variant string) error {
	cmd := exec.Command("go", buildArgs(variant)...)
	cmd.Dir = harnessDir
	cmd.Env = goEnv()
	out, err := cmd.CombinedOutput()
	if err != nil {
		return fmt.Errorf("go %s: %v\n%s", strings.Join(buildArgs(variant), " "), err, out)
	}
	return nil
}

type childOut struct {
	build    string
	shard    int
	res      *trace.Result
	crashes  []trace.Finding
	inconcl  []string
	logFiles []string
}

func runChild(ctx context.Context, bin string, args []string, logPath string, extraEnv []string, watchdog time.Duration) (exit int, timedOut bool) {
	lf, err := os.Create(logPath)
	if err != nil {
		return 2, false
	}
	defer lf.Close()
	cmd := exec.Command(bin, args...)
	cmd.Stdout = lf
	cmd.Stderr = lf
	cmd.Env = append(os.Environ(), extraEnv...)
	cmd.SysProcAttr = &syscall.SysProcAttr{Setpgid: true}
	if err := cmd.Start(); err != nil {
		fmt.Fprintf(lf, "start: %v\n", err)
		return 2, false
	}
	done := make(chan error, 1)
	go func() { done <- cmd.Wait() }()
	select {
	case err := <-done:
		if err == nil {
			return 0, false
		}
		if ee, ok := err.(*exec.ExitError); ok {
			if ws, ok := ee.Sys().(syscall.WaitStatus); ok && ws.Signaled() {
				return 128 + int(ws.Signal()), false
			}
			return ee.ExitCode(), false
		}
		return 2, false
	case <-time.After(watchdog):
		_ = cmd.Process.Signal(syscall.SIGQUIT) // goroutine dump into the log
		select {
		case <-done:
		case <-time.After(10 * time.Second):
			_ = cmd.Process.Kill()
			<-done
		}
		return 124, true
	}
}

func readPending(path string) (layer string, idx int, op string, ok bool) {
	b, err := os.ReadFile(path)
	if err != nil {
		return
	}
	s := strings.TrimSpace(string(b))
	if s == "" {
		return
	}
	parts := strings.SplitN(s, "\t", 3)
	if len(parts) < 2 {
		return
	}
	idx, err = strconv.Atoi(parts[1])
	if err != nil {
		return
	}
	layer = parts[0]
	if len(parts) == 3 {
		op = parts[2]
	}
	return layer, idx, op, true
}

var (
	addrRe = regexp.MustCompile(`0x[0-9a-fA-F]+`)
	numRe  = regexp.MustCompile(`\b\d+\b`)
)

// fatalLine extracts the first line that names the process-fatal condition from a child's log.
func fatalLine(logPath string) string {
	f, err := os.Open(logPath)
	if err != nil {
		return "no log"
	}
	defer f.Close()
	sc := bufio.NewScanner(f)
	sc.Buffer(make([]byte, 1<<20), 1<<20)
	for sc.Scan() {
		l := sc.Text()
		switch {
		case strings.HasPrefix(l, "fatal error:"), strings.HasPrefix(l, "panic:"), strings.Contains(l, "ERROR: AddressSanitizer"),
			strings.HasPrefix(l, "runtime: goroutine stack exceeds"), strings.HasPrefix(l, "SIGSEGV"), strings.HasPrefix(l, "unexpected fault address"),
			strings.HasPrefix(l, "SIGQUIT"):
			l = addrRe.ReplaceAllString(l, "ADDR")
			l = numRe.ReplaceAllString(l, "N")
			if len(l) > 140 {
				l = l[:140]
			}
			return l
		}
	}
	return "killed without message"
}

// fatalClass reduces the fatal line to the kind of condition.
func fatalClass(l string) string {
	switch {
	case strings.Contains(l, "AddressSanitizer"):
		return "AddressSanitizer"
	case strings.Contains(l, "checkptr"):
		return "checkptr"
	case strings.Contains(l, "stack exceeds"), strings.Contains(l, "stack overflow"):
		return "stack-overflow"
	case strings.Contains(l, "SIGSEGV"), strings.Contains(l, "unexpected fault address"), strings.Contains(l, "unexpected signal"):
		return "SIGSEGV"
	case strings.Contains(l, "out of memory"):
		return "out-of-memory"
	case strings.HasPrefix(l, "SIGQUIT"):
		return "watchdog"
	case strings.HasPrefix(l, "panic:"):
		return "panic"
	case strings.HasPrefix(l, "fatal error:"):
		return strings.TrimSpace(l)
	}
	return l
}

func libFrame(logPath string) string {
	b, err := os.ReadFile(logPath)
	if err != nil {
		return "?"
	}
	re := regexp.MustCompile(`github\.com/go-ap/activitypub\.([A-Za-z0-9_.()*\[\]]+)\(`)
	m := re.FindSubmatch(b)
	if m == nil {
		return "?"
	}
	return string(m[1])
}

// confirmed crash signatures: a signature that has reproduced in isolation once is not replayed again
var (
	confirmedMu  sync.Mutex
	confirmedSig = map[string]bool{}
	crashCount   int
)

type runner struct {
	prop, tier string
	seed       int64
	m          meta
	outDir     string
	nshards    int
}

// runShard runs one shard to completion, resuming after each abnormal exit.
func (r *runner) runShard(variant string, shard, nshards int) childOut {
	co := childOut{build: variant, shard: shard}
	bin := filepath.Join(buildDir, "vdrive-"+variant)
	watchdog := time.Duration(r.m.WatchdogS) * time.Second
	if watchdog == 0 {
		// generous (>= 20x the measured run time of any shard), decided by the tier only
		watchdog = 6 * time.Minute
		if r.tier == "thorough" {
			watchdog = 45 * time.Minute
		}
	}
	skip := ""
	var merged *trace.Result
	for attempt := 0; attempt < 40; attempt++ {
		name := fmt.Sprintf("%s-%d", variant, shard)
		logPath := filepath.Join(r.outDir, fmt.Sprintf("%s.%d.log", name, attempt))
		co.logFiles = append(co.logFiles, logPath)
		_ = os.Remove(filepath.Join(r.outDir, name+".json"))
		_ = os.Remove(filepath.Join(r.outDir, name+".pending"))
		_ = os.Remove(filepath.Join(r.outDir, name+".findings.jsonl"))
		args := []string{"-prop", r.prop, "-tier", r.tier, "-seed", fmt.Sprint(r.seed), "-shard", fmt.Sprint(shard), "-nshards", fmt.Sprint(nshards),
			"-out", r.outDir, "-build", variant}
		if skip != "" {
			args = append(args, "-after", skip)
		}
		env := []string{}
		if variant == "race" {
			env = append(env, "GORACE=halt_on_error=0 log_path="+filepath.Join(r.outDir, name+".race"))
		}
		if variant == "asan" {
			env = append(env, "ASAN_OPTIONS=detect_leaks=0:abort_on_error=0:halt_on_error=1")
		}
		if variant == "plain" || variant == "ckptr" || variant == "cover" {
			env = append(env, "VERIF_AS_LIMIT_MB=8192")
		}
		if variant == "cover" {
			cd := filepath.Join(r.outDir, "covdata")
			_ = os.MkdirAll(cd, 0o755)
			env = append(env, "GOCOVERDIR="+cd)
		}
		exit, timedOut := runChild(context.Background(), bin, args, logPath, env, watchdog)
		var res trace.Result
		if b, err := os.ReadFile(filepath.Join(r.outDir, name+".json")); err == nil && json.Unmarshal(b, &res) == nil && res.Done {
			merged = mergeResult(merged, &res)
			if exit != 0 {
				co.inconcl = append(co.inconcl, fmt.Sprintf("%s exited %d after writing a complete result", name, exit))
			}
			break
		}
		// abnormal exit: attribute through the write-ahead record
		layer, idx, op, ok := readPending(filepath.Join(r.outDir, name+".pending"))
		// findings the dead child had already logged (write-through log) are kept
		if fb, err := os.ReadFile(filepath.Join(r.outDir, name+".findings.jsonl")); err == nil {
			for _, l := range strings.Split(string(fb), "\n") {
				var pf trace.Finding
				if strings.HasPrefix(l, "{") && json.Unmarshal([]byte(l), &pf) == nil {
					co.crashes = append(co.crashes, pf)
				}
			}
		}
		if !ok {
			co.inconcl = append(co.inconcl, fmt.Sprintf("%s died (exit %d) with no pending record: %s", name, exit, fatalLine(logPath)))
			break
		}
		kind := "crash"
		if timedOut {
			kind = "hang"
		}
		fl := fatalLine(logPath)
		fr := libFrame(logPath)
		// signature: kind | layer | class of the fatal condition | class of the pending operation (the part before " :: ")
		opClass := op
		if i := strings.Index(op, " :: "); i >= 0 {
			opClass = op[:i]
		}
		f := trace.Finding{Prop: r.prop, Layer: layer, Index: idx, Seed: r.seed, Build: variant,
			Sig:    fmt.Sprintf("%s|%s|%s|%s", kind, layer, fatalClass(fl), opClass),
			What:   fmt.Sprintf("child process died (%s, exit %d, %s build) while executing %s:%d op=%q: %s [frame %s]", kind, exit, variant, layer, idx, op, fl, fr),
			Detail: map[string]any{"exit": exit, "op": op, "log": logPath, "fatal": fl, "frame": fr}}
		// confirm by isolated replay (once per signature)
		confirmedMu.Lock()
		already := confirmedSig[f.Sig]
		crashCount++
		tooMany := crashCount > 60
		confirmedMu.Unlock()
		repro := 0
		if already {
			repro = 2
		}
		for k := 0; k < 2 && !already; k++ {
			rl := filepath.Join(r.outDir, fmt.Sprintf("%s.replay%d.%d.log", name, attempt, k))
			rargs := []string{"-prop", r.prop, "-tier", r.tier, "-seed", fmt.Sprint(r.seed), "-build", variant, "-only", fmt.Sprintf("%s:%d", layer, idx)}
			e, to := runChild(context.Background(), bin, rargs, rl, env, 150*time.Second)
			if e != 0 || to {
				repro++
			}
		}
		if repro == 2 {
			co.crashes = append(co.crashes, f)
			confirmedMu.Lock()
			confirmedSig[f.Sig] = true
			confirmedMu.Unlock()
		} else {
			co.inconcl = append(co.inconcl, fmt.Sprintf("abnormal exit at %s:%d (%s) did not reproduce in isolation (%d/2)", layer, idx, fl, repro))
		}
		skip = fmt.Sprintf("%s:%d", layer, idx)
		// the partial observations of the dead child are lost; the resumed child re-counts from the next case
		if attempt == 39 || tooMany {
			co.inconcl = append(co.inconcl, name+": too many abnormal exits, shard abandoned (the violations found so far stand)")
			break
		}
	}
	co.res = merged
	return co
}

func mergeResult(a, b *trace.Result) *trace.Result {
	if a == nil {
		c := *b
		return &c
	}
	a.Evals += b.Evals
	a.Cases += b.Cases
	for k, v := range b.Counters {
		a.Counters[k] += v
	}
	a.Findings = append(a.Findings, b.Findings...)
	for k, v := range b.SigCounts {
		if a.SigCounts == nil {
			a.SigCounts = map[string]int{}
		}
		a.SigCounts[k] += v
	}
	if len(a.Samples) < 4 {
		// shard 0 contributes all of its samples (two per layer), later shards fill up
		a.Samples = append(a.Samples, b.Samples...)
	}
	a.FPs = append(a.FPs, b.FPs...)
	a.NonTriv = append(a.NonTriv, b.NonTriv...)
	if a.LayerN == nil {
		a.LayerN = b.LayerN
		a.LayerEx = b.LayerEx
	}
	return a
}

func loadKnown() []knownEntry {
	var out []knownEntry
	f, err := os.Open(filepath.Join(verifDir, "known_findings.jsonl"))
	if err != nil {
		return nil
	}
	defer f.Close()
	sc := bufio.NewScanner(f)
	sc.Buffer(make([]byte, 1<<20), 1<<20)
	for sc.Scan() {
		l := strings.TrimSpace(sc.Text())
		if l == "" || strings.HasPrefix(l, "#") {
			continue
		}
		var e knownEntry
		if json.Unmarshal([]byte(l), &e) == nil {
			out = append(out, e)
		}
	}
	return out
}

func describe(prop, tier string) (meta, error) {
	var m meta
	cmd := exec.Command(filepath.Join(buildDir, "vdrive-plain"), "-prop", prop, "-tier", tier, "-describe")
	out, err := cmd.Output()
	if err != nil {
		return m, fmt.Errorf("describe: %v", err)
	}
	err = json.Unmarshal(out, &m)
	return m, err
}

// raceReports parses the race detector's log files and dedups reports by the pair of outermost
// library entry points, then by stack pair with line numbers stripped.
func raceReports(dir string) (distinct map[string]string, total int) {
	distinct = map[string]string{}
	files, _ := filepath.Glob(filepath.Join(dir, "*.race.*"))
	lineRe := regexp.MustCompile(`:\d+`)
	for _, f := range files {
		b, err := os.ReadFile(f)
		if err != nil {
			continue
		}
		blocks := strings.Split(string(b), "==================")
		for _, bl := range blocks {
			if !strings.Contains(bl, "WARNING: DATA RACE") {
				continue
			}
			total++
			var libs []string
			for _, l := range strings.Split(bl, "\n") {
				l = strings.TrimSpace(l)
				if strings.HasPrefix(l, "github.com/go-ap/activitypub.") {
					libs = append(libs, strings.TrimSuffix(strings.SplitN(l, "(", 2)[0], "()"))
				}
			}
			key := "race|" + strings.Join(uniq(libs), ">")
			if len(key) > 300 {
				key = key[:300]
			}
			if _, ok := distinct[key]; !ok {
				distinct[key] = lineRe.ReplaceAllString(bl, "")
				if len(distinct[key]) > 3000 {
					distinct[key] = distinct[key][:3000]
				}
			}
		}
	}
	return
}

// unsafeSiteCoverage lists the unsafe.Pointer conversion expressions in the library source and says which executed.
func unsafeSiteCoverage(covDir string) map[string]any {
	repo := envOr("VERIF_REPO", "/repo")
	out := map[string]any{}
	prof := filepath.Join(covDir, "profile.txt")
	cmd := exec.Command("go", "tool", "covdata", "textfmt", "-i="+covDir, "-o="+prof)
	cmd.Env = goEnv()
	if b, err := cmd.CombinedOutput(); err != nil {
		out["error"] = fmt.Sprintf("covdata: %v %s", err, b)
		return out
	}
	type block struct {
		s, e int
		cnt  int64
	}
	blocks := map[string][]block{}
	if f, err := os.Open(prof); err == nil {
		sc := bufio.NewScanner(f)
		for sc.Scan() {
			l := sc.Text()
			i := strings.LastIndexByte(l, ':')
			if i < 0 || strings.HasPrefix(l, "mode:") {
				continue
			}
			file := filepath.Base(l[:i])
			var sl, scol, el, ecol, n int
			var cnt int64
			if _, err := fmt.Sscanf(l[i+1:], "%d.%d,%d.%d %d %d", &sl, &scol, &el, &ecol, &n, &cnt); err == nil {
				blocks[file] = append(blocks[file], block{sl, el, cnt})
			}
		}
		f.Close()
	}
	files, _ := filepath.Glob(filepath.Join(repo, "*.go"))
	var total, reached int
	var unreached []string
	for _, fp := range files {
		if strings.HasSuffix(fp, "_test.go") {
			continue
		}
		b, err := os.ReadFile(fp)
		if err != nil {
			continue
		}
		for ln, line := range strings.Split(string(b), "\n") {
			if !strings.Contains(line, "unsafe.Pointer(") || strings.HasPrefix(strings.TrimSpace(line), "//") {
				continue
			}
			total++
			hit := false
			for _, bl := range blocks[filepath.Base(fp)] {
				if bl.s <= ln+1 && ln+1 <= bl.e && bl.cnt > 0 {
					hit = true
				}
			}
			if hit {
				reached++
			} else {
				unreached = append(unreached, fmt.Sprintf("%s:%d", filepath.Base(fp), ln+1))
			}
		}
	}
	out["total"], out["reached"], out["unreached"] = total, reached, unreached
	return out
}

func uniq(s []string) []string {
	seen := map[string]bool{}
	var out []string
	for _, x := range s {
		if !seen[x] {
			seen[x] = true
			out = append(out, x)
		}
	}
	return out
}

func sigHash(s string) string {
	var h uint64 = 14695981039346656037
	for i := 0; i < len(s); i++ {
		h ^= uint64(s[i])
		h *= 1099511628211
	}
	return fmt.Sprintf("%016x", h)
}

func main() {
	if len(os.Args) < 3 {
		fmt.Fprintln(os.Stderr, "usage: vsup <Cxx> quick|thorough | vsup <Cxx> --replay <file>")
		os.Exit(2)
	}
	prop := os.Args[1]
	_ = os.MkdirAll(buildDir, 0o755)
	if os.Args[2] == "--replay" {
		if len(os.Args) < 4 {
			fmt.Fprintln(os.Stderr, "missing replay file")
			os.Exit(2)
		}
		os.Exit(replay(prop, os.Args[3]))
	}
	tier := os.Args[2]
	if tier != "quick" && tier != "thorough" {
		fmt.Fprintln(os.Stderr, "tier must be quick or thorough")
		os.Exit(2)
	}
	seed := int64(1)
	if s := os.Getenv("VERIF_SEED"); s != "" {
		if v, err := strconv.ParseInt(s, 10, 64); err == nil {
			seed = v
		}
	}
	os.Exit(run(prop, tier, seed))
}

func replay(prop, file string) int {
	b, err := os.ReadFile(file)
	if err != nil {
		fmt.Fprintln(os.Stderr, err)
		return 2
	}
	var f trace.Finding
	if err := json.Unmarshal(b, &f); err != nil {
		fmt.Fprintln(os.Stderr, "bad replay file:", err)
		return 2
	}
	variant := f.Build
	if variant == "" {
		variant = "plain"
	}
	if err := build(variant); err != nil {
		fmt.Fprintln(os.Stderr, err)
		return 2
	}
	tier := "quick"
	if t, ok := f.Detail["tier"].(string); ok {
		tier = t
	}
	tmp, _ := os.MkdirTemp(verifDir, ".replay-")
	defer os.RemoveAll(tmp)
	logPath := filepath.Join(tmp, "log")
	args := []string{"-prop", prop, "-tier", tier, "-seed", fmt.Sprint(f.Seed), "-build", variant, "-only", fmt.Sprintf("%s:%d", f.Layer, f.Index), "-v"}
	exit, to := runChild(context.Background(), filepath.Join(buildDir, "vdrive-"+variant), args, logPath, nil, 150*time.Second)
	out, _ := os.ReadFile(logPath)
	os.Stdout.Write(out)
	reproduced := false
	if exit != 0 || to {
		fmt.Printf("child exited abnormally (exit %d, timeout %v)\n", exit, to)
		reproduced = strings.HasPrefix(f.Sig, "crash|") || strings.HasPrefix(f.Sig, "hang|")
	}
	for _, l := range strings.Split(string(out), "\n") {
		if strings.HasPrefix(l, "{") {
			var g trace.Finding
			if json.Unmarshal([]byte(l), &g) == nil && g.Sig == f.Sig {
				reproduced = true
			}
		}
	}
	if reproduced {
		fmt.Printf("VIOLATION property=%s replay=%s\n", prop, file)
		return 1
	}
	fmt.Printf("replay of %s: signature %q not reproduced\n", file, f.Sig)
	return 0
}

func run(prop, tier string, seed int64) int {
	t0 := time.Now()
	if err := build("plain"); err != nil {
		fmt.Fprintln(os.Stderr, "BUILD FAILED:", err)
		return 2
	}
	m, err := describe(prop, tier)
	if err != nil {
		fmt.Fprintln(os.Stderr, err)
		return 2
	}
	outDir := filepath.Join(envOr("VERIF_OUT_DIR", verifDir), ".run", fmt.Sprintf("%s-%s-%d", prop, tier, os.Getpid()))
	_ = os.RemoveAll(outDir)
	_ = os.MkdirAll(outDir, 0o755)
	defer func() {
		if os.Getenv("VERIF_KEEP") == "" {
			_ = os.RemoveAll(outDir)
		}
	}()
	ncpu := runtime.NumCPU()
	if v := os.Getenv("VERIF_JOBS"); v != "" {
		if n, err := strconv.Atoi(v); err == nil && n > 0 {
			ncpu = n
		}
	}
	if v := os.Getenv("VERIF_ONLY_BUILDS"); v != "" {
		// investigation aid (not used by any registered command): restrict the run to some build variants
		m.Builds = strings.Split(v, ",")
	}
	r := &runner{prop: prop, tier: tier, seed: seed, m: m, outDir: outDir, nshards: ncpu}
	var outs []childOut
	for _, variant := range m.Builds {
		if variant != "plain" {
			if err := build(variant); err != nil {
				fmt.Fprintln(os.Stderr, "BUILD FAILED:", err)
				return 2
			}
		}
		nsh := ncpu
		for _, o := range m.OneShard {
			if o == variant {
				nsh = 1
			}
		}
		var wg sync.WaitGroup
		res := make([]childOut, nsh)
		for s := 0; s < nsh; s++ {
			wg.Add(1)
			go func(s int) {
				defer wg.Done()
				res[s] = r.runShard(variant, s, nsh)
			}(s)
		}
		wg.Wait()
		outs = append(outs, res...)
	}

	// merge
	total := &trace.Result{Counters: map[string]int64{}, SigCounts: map[string]int{}}
	var inconcl []string
	perBuild := map[string]map[string]int64{}
	abnormal := 0
	children := 0
	for _, co := range outs {
		children++
		inconcl = append(inconcl, co.inconcl...)
		abnormal += len(co.crashes)
		for _, f := range co.crashes {
			total.Findings = append(total.Findings, f)
			total.SigCounts[f.Sig]++
		}
		if co.res == nil {
			continue
		}
		pb := perBuild[co.build]
		if pb == nil {
			pb = map[string]int64{}
			perBuild[co.build] = pb
		}
		pb["evaluations"] += co.res.Evals
		pb["cases"] += co.res.Cases
		total = mergeResult(total, co.res)
	}
	// race reports
	raceDistinct, raceTotal := raceReports(outDir)
	for k, v := range raceDistinct {
		total.Findings = append(total.Findings, trace.Finding{Prop: prop, Sig: k, What: "data race reported by the race detector", Layer: "race", Build: "race", Seed: seed,
			Detail: map[string]any{"report": v}})
		total.SigCounts[k]++
	}
	fpset := map[uint64]struct{}{}
	for _, h := range total.FPs {
		fpset[h] = struct{}{}
	}
	ntset := map[uint64]struct{}{}
	for _, h := range total.NonTriv {
		ntset[h] = struct{}{}
	}

	// conversion-site accounting from the cover build (which unsafe.Pointer sites of the source executed)
	var siteCov map[string]any
	for _, variant := range m.Builds {
		if variant == "cover" {
			siteCov = unsafeSiteCoverage(filepath.Join(outDir, "covdata"))
			if un, ok := siteCov["unreached"].([]string); ok && len(un) > 0 {
				inconcl = append(inconcl, fmt.Sprintf("%d unsafe.Pointer conversion sites were never executed under the monitors: %v", len(un), un))
			}
		}
	}

	// floors
	for k, min := range m.Floors {
		if total.Counters[k] < min {
			inconcl = append(inconcl, fmt.Sprintf("coverage floor missed: %s=%d < %d", k, total.Counters[k], min))
		}
	}

	// classify findings
	known := loadKnown()
	knownBySig := map[string]knownEntry{}
	for _, e := range known {
		if e.Property == prop && e.Status == "known" {
			knownBySig[e.Signature] = e
		}
	}
	bySig := map[string]trace.Finding{}
	for _, f := range total.Findings {
		if g, ok := bySig[f.Sig]; !ok || f.Layer < g.Layer || (f.Layer == g.Layer && f.Index < g.Index) {
			bySig[f.Sig] = f
		}
	}
	sigs := make([]string, 0, len(bySig))
	for s := range bySig {
		sigs = append(sigs, s)
	}
	sort.Strings(sigs)
	violations := 0
	var knownSeen []string
	replayDir := filepath.Join(envOr("VERIF_OUT_DIR", verifDir), "replay", prop)
	for _, s := range sigs {
		f := bySig[s]
		if e, ok := knownBySig[s]; ok {
			fmt.Printf("KNOWN-FINDING: property=%s %s\n", prop, e.What)
			knownSeen = append(knownSeen, s)
			continue
		}
		violations++
		_ = os.MkdirAll(replayDir, 0o755)
		if f.Detail == nil {
			f.Detail = map[string]any{}
		}
		f.Detail["tier"] = tier
		f.Detail["occurrences"] = total.SigCounts[s]
		rp := filepath.Join(replayDir, sigHash(s)+".json")
		b, _ := json.MarshalIndent(f, "", " ")
		_ = os.WriteFile(rp, b, 0o644)
		fmt.Printf("VIOLATION property=%s replay=%s\n", prop, rp)
		fmt.Printf("  signature: %s\n  what: %s\n  case: %s:%d seed=%d build=%s occurrences=%d\n", s, f.What, f.Layer, f.Index, f.Seed, f.Build, total.SigCounts[s])
	}
	for s, e := range knownBySig {
		found := false
		for _, k := range knownSeen {
			if k == s {
				found = true
			}
		}
		if !found && (e.Tier == "" || e.Tier == tier) {
			fmt.Printf("NOTE: known finding did not reproduce in this run (stale entry?): %s :: %s\n", s, e.What)
		}
	}
	for _, s := range inconcl {
		fmt.Printf("INCONCLUSIVE: property=%s %s\n", prop, s)
	}

	// evidence
	exhaustive := false
	layers := map[string]any{}
	for n, cnt := range total.LayerN {
		layers[n] = map[string]any{"cases": cnt, "exhaustive": total.LayerEx[n]}
		if total.LayerEx[n] {
			exhaustive = true
		}
	}
	samples := total.Samples
	if len(samples) > 10 {
		samples = samples[:10]
	}
	if len(samples) == 0 {
		samples = []any{"(no sample recorded)"}
	}
	cov := map[string]any{
		"evaluations":         total.Evals,
		"distinct_nontrivial": len(ntset),
		"distinct_cases":      len(fpset),
		"cases":               total.Cases,
		"rule":                m.Rule,
		"samples":             samples,
		"layers":              layers,
		"exhaustive_layers_enumerated_completely": exhaustive,
		"counters":              total.Counters,
		"builds":                m.Builds,
		"per_build":             perBuild,
		"child_processes":       children,
		"abnormal_exits":        abnormal,
		"race_reports_total":    raceTotal,
		"race_reports_distinct": len(raceDistinct),
		"known_findings_seen":   knownSeen,
		"inconclusive":          inconcl,
		"floors":                m.Floors,
	}
	ev := map[string]any{
		"property_id": prop, "tier": tier, "seed": seed, "level": "exploration",
		"coverage": cov, "assumptions": m.Assumptions, "wall_s": time.Since(t0).Seconds(), "violations": violations,
	}
	_ = os.MkdirAll(filepath.Join(envOr("VERIF_OUT_DIR", verifDir), "evidence"), 0o755)
	var ebuf bytes.Buffer
	enc := json.NewEncoder(&ebuf)
	enc.SetEscapeHTML(false)
	enc.SetIndent("", " ")
	_ = enc.Encode(ev)
	eb := bytes.TrimRight(ebuf.Bytes(), "\n")
	_ = os.WriteFile(filepath.Join(envOr("VERIF_OUT_DIR", verifDir), "evidence", prop+".json"), append(eb, '\n'), 0o644)

	fmt.Printf("%s %s seed=%d: cases=%d evaluations=%d distinct=%d nontrivial=%d findings=%d (known %d) violations=%d inconclusive=%d wall=%.1fs\n",
		prop, tier, seed, total.Cases, total.Evals, len(fpset), len(ntset), len(sigs), len(knownSeen), violations, len(inconcl), time.Since(t0).Seconds())
	if violations > 0 {
		return 1
	}
	if len(inconcl) > 0 {
		return 3
	}
	return 0
}
