package vmodel

import (
	"bytes"
	"encoding/json"
	"fmt"
	"io"
)

// JVal is a strictly parsed JSON value. Object members keep document order and duplicates.
type JVal struct {
	Kind    string // object array string number bool null
	Members []JMember
	Arr     []*JVal
	S       string // decoded string / number literal / "true"/"false"
}

type JMember struct {
	Name string
	Val  *JVal
}

// Get returns the first member with that name.
func (v *JVal) Get(name string) *JVal {
	if v == nil {
		return nil
	}
	for _, m := range v.Members {
		if m.Name == name {
			return m.Val
		}
	}
	return nil
}

// StrictParse requires exactly one JSON value and nothing after it, and reports duplicate member
// names in any object (which json.Unmarshal silently merges). dups lists "path:name".
func StrictParse(b []byte) (v *JVal, dups []string, err error) {
	if !json.Valid(b) {
		// json.Valid is the syntax authority; the decoder below would accept some trailing garbage lazily
		var se *json.SyntaxError
		var x any
		e := json.Unmarshal(b, &x)
		if e == nil {
			e = fmt.Errorf("invalid JSON")
		}
		_ = se
		return nil, nil, e
	}
	dec := json.NewDecoder(bytes.NewReader(b))
	dec.UseNumber()
	v, err = parseVal(dec, "", &dups)
	if err != nil {
		return nil, dups, err
	}
	if _, e := dec.Token(); e != io.EOF {
		return nil, dups, fmt.Errorf("trailing data after the JSON value")
	}
	return v, dups, nil
}

func parseVal(dec *json.Decoder, path string, dups *[]string) (*JVal, error) {
	tok, err := dec.Token()
	if err != nil {
		return nil, err
	}
	switch t := tok.(type) {
	case json.Delim:
		switch t {
		case '{':
			v := &JVal{Kind: "object"}
			seen := map[string]bool{}
			for dec.More() {
				kt, err := dec.Token()
				if err != nil {
					return nil, err
				}
				name, ok := kt.(string)
				if !ok {
					return nil, fmt.Errorf("object key is not a string")
				}
				if seen[name] {
					*dups = append(*dups, path+":"+name)
				}
				seen[name] = true
				mv, err := parseVal(dec, path+"/"+name, dups)
				if err != nil {
					return nil, err
				}
				v.Members = append(v.Members, JMember{name, mv})
			}
			if _, err := dec.Token(); err != nil {
				return nil, err
			}
			return v, nil
		case '[':
			v := &JVal{Kind: "array"}
			for dec.More() {
				ev, err := parseVal(dec, path+"[]", dups)
				if err != nil {
					return nil, err
				}
				v.Arr = append(v.Arr, ev)
			}
			if _, err := dec.Token(); err != nil {
				return nil, err
			}
			return v, nil
		}
		return nil, fmt.Errorf("unexpected delimiter %v", t)
	case string:
		return &JVal{Kind: "string", S: t}, nil
	case json.Number:
		return &JVal{Kind: "number", S: t.String()}, nil
	case bool:
		if t {
			return &JVal{Kind: "bool", S: "true"}, nil
		}
		return &JVal{Kind: "bool", S: "false"}, nil
	case nil:
		return &JVal{Kind: "null"}, nil
	}
	return nil, fmt.Errorf("unexpected token %T", tok)
}

// IsZero says whether the JSON value is a zero value (tolerated for an unset property).
func (v *JVal) IsZero() bool {
	switch v.Kind {
	case "null":
		return true
	case "number":
		return v.S == "0" || v.S == "0.0"
	case "bool":
		return v.S == "false"
	case "string":
		return v.S == ""
	case "array":
		return len(v.Arr) == 0
	case "object":
		return len(v.Members) == 0
	}
	return false
}
