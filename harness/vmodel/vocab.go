// Package vmodel holds the reference models, canonical forms and generators the monitors use as
// oracles. Nothing in here calls the library's encoders, decoders, Equals/ItemsEqual or helpers:
// values are built and inspected through reflect only.
package vmodel

import (
	"reflect"
	"strings"
	"time"

	vocab "github.com/go-ap/activitypub"
)

// StructKind is one of the 14 vocabulary struct types together with the vocabulary names that the
// ActivityStreams vocabulary (W3C) assigns to it. This table is literal on purpose: it is the
// independent side of C07.
type StructKind struct {
	Name  string
	New   func() any // pointer to a zero struct
	Types []string   // vocabulary names; the first is the generic name of the family
	Fam   string     // object | actor | activity | intransitive | question | collection | link
}

var Kinds = []StructKind{
	{"Object", func() any { return &vocab.Object{} }, []string{"Object", "Article", "Audio", "Document", "Event", "Image", "Note", "Page", "Video"}, "object"},
	{"Actor", func() any { return &vocab.Actor{} }, []string{"Actor", "Application", "Group", "Organization", "Person", "Service"}, "actor"},
	{"Activity", func() any { return &vocab.Activity{} }, []string{"Activity", "Accept", "Add", "Announce", "Block", "Create", "Delete", "Dislike", "Flag", "Follow", "Ignore", "Invite", "Join", "Leave", "Like", "Listen", "Move", "Offer", "Reject", "Read", "Remove", "TentativeReject", "TentativeAccept", "Undo", "Update", "View"}, "activity"},
	{"IntransitiveActivity", func() any { return &vocab.IntransitiveActivity{} }, []string{"IntransitiveActivity", "Arrive", "Travel"}, "intransitive"},
	{"Question", func() any { return &vocab.Question{} }, []string{"Question"}, "question"},
	{"Collection", func() any { return &vocab.Collection{} }, []string{"Collection"}, "collection"},
	{"CollectionPage", func() any { return &vocab.CollectionPage{} }, []string{"CollectionPage"}, "collection"},
	{"OrderedCollection", func() any { return &vocab.OrderedCollection{} }, []string{"OrderedCollection"}, "collection"},
	{"OrderedCollectionPage", func() any { return &vocab.OrderedCollectionPage{} }, []string{"OrderedCollectionPage"}, "collection"},
	{"Place", func() any { return &vocab.Place{} }, []string{"Place"}, "object"},
	{"Profile", func() any { return &vocab.Profile{} }, []string{"Profile"}, "object"},
	{"Relationship", func() any { return &vocab.Relationship{} }, []string{"Relationship"}, "object"},
	{"Tombstone", func() any { return &vocab.Tombstone{} }, []string{"Tombstone"}, "object"},
	{"Link", func() any { return &vocab.Link{} }, []string{"Link", "Mention"}, "link"},
}

// KindIndex returns the index of the struct kind with that Go name, -1 if none.
func KindIndex(name string) int {
	for i, k := range Kinds {
		if k.Name == name {
			return i
		}
	}
	return -1
}

// KindOfType returns the struct kind the vocabulary assigns to a type name ("" is a plain Object).
func KindOfType(typ string) (StructKind, bool) {
	if typ == "" {
		return Kinds[0], true
	}
	for _, k := range Kinds {
		for _, t := range k.Types {
			if t == typ {
				return k, true
			}
		}
	}
	return StructKind{}, false
}

// SpecificType is a non-generic vocabulary name of the kind (the generic one if there is no other).
func (k StructKind) SpecificType() string {
	switch k.Name {
	case "Object":
		return "Note"
	case "Actor":
		return "Person"
	case "Activity":
		return "Create"
	case "IntransitiveActivity":
		return "Arrive"
	case "Link":
		return "Mention"
	}
	return k.Types[0]
}

var (
	ItemT  = reflect.TypeOf((*vocab.Item)(nil)).Elem()
	TimeT  = reflect.TypeOf(time.Time{})
	DurT   = reflect.TypeOf(time.Duration(0))
	NlvT   = reflect.TypeOf(vocab.NaturalLanguageValues{})
	IcT    = reflect.TypeOf(vocab.ItemCollection{})
	IrisT  = reflect.TypeOf(vocab.IRIs{})
	IriT   = reflect.TypeOf(vocab.IRI(""))
	MimeT  = reflect.TypeOf(vocab.MimeType(""))
	LangT  = reflect.TypeOf(vocab.LangRef(""))
	AvtT   = reflect.TypeOf(vocab.ActivityVocabularyType(""))
	SrcT   = reflect.TypeOf(vocab.Source{})
	PkT    = reflect.TypeOf(vocab.PublicKey{})
	EpPtrT = reflect.TypeOf(&vocab.Endpoints{})
	EpT    = reflect.TypeOf(vocab.Endpoints{})
)

// Term is the vocabulary term a struct field declares in its jsonld tag.
func Term(f reflect.StructField) string {
	t := f.Tag.Get("jsonld")
	if i := strings.IndexByte(t, ','); i >= 0 {
		t = t[:i]
	}
	if t == "" {
		t = f.Name
	}
	return t
}

// Field describes one declared field of a struct kind.
type Field struct {
	Index int
	Name  string
	Term  string
	Type  reflect.Type
}

// Fields lists the declared fields of a kind (by reflection on the struct definition).
func (k StructKind) Fields() []Field {
	t := reflect.TypeOf(k.New()).Elem()
	out := make([]Field, 0, t.NumField())
	for i := 0; i < t.NumField(); i++ {
		f := t.Field(i)
		if !f.IsExported() {
			continue // padding or private bookkeeping: not a vocabulary property
		}
		out = append(out, Field{i, f.Name, Term(f), f.Type})
	}
	return out
}

// FieldByTerm finds a field by its term.
func (k StructKind) FieldByTerm(term string) (Field, bool) {
	for _, f := range k.Fields() {
		if f.Term == term {
			return f, true
		}
	}
	return Field{}, false
}

// IsItemType says whether a Go type is an item position (an interface implemented by the vocabulary types).
func IsItemType(t reflect.Type) bool { return t.Kind() == reflect.Interface }
