package vmodel

import (
	"fmt"
	"math"
	"reflect"
	"sort"
	"strconv"
	"strings"
	"time"

	vocab "github.com/go-ap/activitypub"
)

// Mode selects the documented normal form.
type Mode int

const (
	// Exact: only the unset/empty normal form; instants to the nanosecond (gob, snapshots).
	Exact Mode = iota
	// JSON: additionally instants are UTC whole seconds, a one-element list in a single-item
	// property is that element, and a lone language-tagged string is untagged.
	JSON
)

// Node is the canonical value tree.
type Node struct {
	Kind  string           // iri obj link sub list nlv lv str int uint float bool time dur
	GoT   string           // Go struct name for obj/link/sub
	S     string           // leaf payload
	Props map[string]*Node // obj/link/sub: term -> node
	List  []*Node          // list/nlv
}

func (n *Node) String() string {
	if n == nil {
		return "<unset>"
	}
	switch n.Kind {
	case "obj", "link", "sub":
		keys := n.Keys()
		sb := strings.Builder{}
		sb.WriteString(n.GoT + "{")
		for i, k := range keys {
			if i > 0 {
				sb.WriteString(", ")
			}
			sb.WriteString(k + ": " + n.Props[k].String())
		}
		sb.WriteString("}")
		return sb.String()
	case "list", "nlv":
		sb := strings.Builder{}
		sb.WriteString(n.Kind + "[")
		for i, e := range n.List {
			if i > 0 {
				sb.WriteString(", ")
			}
			sb.WriteString(e.String())
		}
		sb.WriteString("]")
		return sb.String()
	case "lv":
		p := strings.SplitN(n.S, "\x00", 2)
		return fmt.Sprintf("%s=%q", p[0], p[1])
	}
	return n.Kind + ":" + fmt.Sprintf("%q", n.S)
}

// Keys returns the sorted terms of an obj/link/sub node.
func (n *Node) Keys() []string {
	keys := make([]string, 0, len(n.Props))
	for k := range n.Props {
		keys = append(keys, k)
	}
	sort.Strings(keys)
	return keys
}

// Clone deep-copies a node.
func (n *Node) Clone() *Node {
	if n == nil {
		return nil
	}
	c := &Node{Kind: n.Kind, GoT: n.GoT, S: n.S}
	if n.Props != nil {
		c.Props = make(map[string]*Node, len(n.Props))
		for k, v := range n.Props {
			c.Props[k] = v.Clone()
		}
	}
	for _, e := range n.List {
		c.List = append(c.List, e.Clone())
	}
	return c
}

// Equal compares two canonical trees.
func (n *Node) Equal(o *Node) bool { return len(Diff(n, o)) == 0 }

// Canon computes the canonical node of any vocabulary value; nil for unset/empty.
func Canon(v any, m Mode) *Node {
	if v == nil {
		return nil
	}
	return canonV(reflect.ValueOf(v), m, false)
}

func canonV(v reflect.Value, m Mode, singleItemPos bool) *Node {
	if !v.IsValid() {
		return nil
	}
	t := v.Type()
	switch {
	case t == TimeT:
		tm := v.Interface().(time.Time)
		if tm.IsZero() {
			return nil
		}
		if m == JSON {
			return &Node{Kind: "time", S: tm.UTC().Truncate(time.Second).Format(time.RFC3339)}
		}
		return &Node{Kind: "time", S: tm.UTC().Format(time.RFC3339Nano)}
	case t == DurT:
		if v.Int() == 0 {
			return nil
		}
		return &Node{Kind: "dur", S: strconv.FormatInt(v.Int(), 10)}
	case t == NlvT:
		if v.Len() == 0 {
			return nil
		}
		n := &Node{Kind: "nlv"}
		for i := 0; i < v.Len(); i++ {
			e := v.Index(i).Interface().(vocab.LangRefValue)
			if m == JSON && len(e.Value) == 0 {
				continue // JSON mode: an entry without a text says nothing in a document
			}
			n.List = append(n.List, &Node{Kind: "lv", S: string(e.Ref) + "\x00" + string(e.Value)})
		}
		if m == JSON && len(n.List) == 0 {
			return nil
		}
		if m == JSON && len(n.List) == 1 {
			// a lone text: its tag does not count
			n.List[0].S = string(vocab.NilLangRef) + "\x00" + strings.SplitN(n.List[0].S, "\x00", 2)[1]
		}
		return n
	case t == IcT:
		if v.Len() == 0 {
			return nil
		}
		n := &Node{Kind: "list"}
		for i := 0; i < v.Len(); i++ {
			n.List = append(n.List, canonV(v.Index(i), m, false))
		}
		if m == JSON && singleItemPos && len(n.List) == 1 {
			return n.List[0]
		}
		return n
	case t == IrisT:
		if v.Len() == 0 {
			return nil
		}
		n := &Node{Kind: "list"}
		for i := 0; i < v.Len(); i++ {
			n.List = append(n.List, &Node{Kind: "iri", S: v.Index(i).String()})
		}
		if m == JSON && singleItemPos && len(n.List) == 1 {
			return n.List[0]
		}
		return n
	case t == IriT:
		if v.Len() == 0 {
			return nil
		}
		return &Node{Kind: "iri", S: v.String()}
	}
	switch t.Kind() {
	case reflect.Interface:
		if v.IsNil() {
			return nil
		}
		return canonV(v.Elem(), m, singleItemPos)
	case reflect.Pointer:
		if v.IsNil() {
			return nil
		}
		return canonV(v.Elem(), m, singleItemPos)
	case reflect.Struct:
		kind := "obj"
		switch t.Name() {
		case "Link":
			kind = "link"
		case "Source", "PublicKey", "Endpoints":
			kind = "sub"
		}
		n := &Node{Kind: kind, GoT: t.Name(), Props: map[string]*Node{}}
		for i := 0; i < t.NumField(); i++ {
			f := t.Field(i)
			if !f.IsExported() {
				continue
			}
			c := canonV(v.Field(i), m, f.Type.Kind() == reflect.Interface)
			if c != nil {
				n.Props[Term(f)] = c
			}
		}
		if kind == "sub" && len(n.Props) == 0 {
			return nil
		}
		return n
	case reflect.String:
		if v.Len() == 0 {
			return nil
		}
		return &Node{Kind: "str", S: v.String()}
	case reflect.Int64, reflect.Int:
		if v.Int() == 0 {
			return nil
		}
		return &Node{Kind: "int", S: strconv.FormatInt(v.Int(), 10)}
	case reflect.Uint:
		if v.Uint() == 0 {
			return nil
		}
		return &Node{Kind: "uint", S: strconv.FormatUint(v.Uint(), 10)}
	case reflect.Float64:
		if v.Float() == 0 {
			return nil
		}
		return &Node{Kind: "float", S: strconv.FormatFloat(v.Float(), 'g', -1, 64)}
	case reflect.Bool:
		if !v.Bool() {
			return nil
		}
		return &Node{Kind: "bool", S: "true"}
	}
	panic("canon: unhandled " + t.String())
}

// Shape is the shape class of a node, used in finding signatures.
func Shape(n *Node) string {
	if n == nil {
		return "unset"
	}
	switch n.Kind {
	case "obj":
		s := "obj:" + n.GoT
		if _, ok := n.Props["id"]; ok {
			s += "+id"
		}
		if _, ok := n.Props["type"]; ok {
			s += "+type"
		}
		return s
	case "link":
		s := "link"
		if _, ok := n.Props["id"]; ok {
			s += "+id"
		}
		return s
	case "sub":
		return "sub:" + n.GoT + "(" + strings.Join(n.Keys(), ",") + ")"
	case "list":
		if len(n.List) == 1 {
			return "list1"
		}
		return "listN"
	case "nlv":
		if len(n.List) == 1 {
			if strings.HasPrefix(n.List[0].S, string(vocab.NilLangRef)+"\x00") {
				return "nlv1-untagged"
			}
			return "nlv1-tagged"
		}
		return "nlvN"
	case "time":
		if strings.Contains(n.S, ".") {
			return "time-ns"
		}
		return "time-s"
	case "int", "dur":
		if strings.HasPrefix(n.S, "-") {
			return n.Kind + "-neg"
		}
		return n.Kind + "-pos"
	case "float":
		f, _ := strconv.ParseFloat(n.S, 64)
		cl := "pos"
		if f < 0 {
			cl = "neg"
		}
		if a := math.Abs(f); a < 1e-4 {
			cl += "-small"
		} else if a >= 1e15 {
			cl += "-large"
		}
		return "float-" + cl
	}
	return n.Kind
}

// Difference is one leaf-level disagreement between a wanted and an observed canonical tree.
type Difference struct {
	Path      string // e.g. Activity.object/Object.name
	Leaf      string // innermost StructKind.term
	Kind      string // missing extra changed kind gotype len
	WantShape string
	GotShape  string
	Want      string
	Got       string
}

// Sig is the narrow signature of a difference.
func (d Difference) Sig() string {
	return d.Leaf + "|" + d.Kind + "|" + d.WantShape + "|" + d.GotShape
}

func Diff(want, got *Node) []Difference {
	var out []Difference
	diff("", "", want, got, &out)
	return out
}

func clip(s string) string {
	if len(s) > 300 {
		return s[:300] + "…"
	}
	return s
}

func diff(path, leaf string, w, g *Node, out *[]Difference) {
	if w == nil && g == nil {
		return
	}
	add := func(kind string) {
		*out = append(*out, Difference{Path: path, Leaf: leaf, Kind: kind, WantShape: Shape(w), GotShape: Shape(g), Want: clip(w.String()), Got: clip(g.String())})
	}
	if w == nil {
		add("extra")
		return
	}
	if g == nil {
		add("missing")
		return
	}
	if w.Kind != g.Kind {
		add("kind")
		return
	}
	switch w.Kind {
	case "obj", "link", "sub":
		if w.GoT != g.GoT {
			add("gotype")
		}
		keys := map[string]bool{}
		for k := range w.Props {
			keys[k] = true
		}
		for k := range g.Props {
			keys[k] = true
		}
		ks := make([]string, 0, len(keys))
		for k := range keys {
			ks = append(ks, k)
		}
		sort.Strings(ks)
		for _, k := range ks {
			p := path
			if p != "" {
				p += "/"
			}
			diff(p+w.GoT+"."+k, w.GoT+"."+k, w.Props[k], g.Props[k], out)
		}
	case "list", "nlv":
		if len(w.List) != len(g.List) {
			add("len")
			return
		}
		for i := range w.List {
			diff(path+"[]", leaf, w.List[i], g.List[i], out)
		}
	default:
		if w.S != g.S {
			add("changed")
		}
	}
}

// Fingerprint is a compact description of the abstract case: kind, set terms and their shapes, nesting depth.
func Fingerprint(n *Node) string {
	if n == nil {
		return "nil"
	}
	sb := strings.Builder{}
	fingerprint(n, &sb, 0)
	return sb.String()
}

func fingerprint(n *Node, sb *strings.Builder, depth int) {
	if n == nil {
		sb.WriteString("nil")
		return
	}
	switch n.Kind {
	case "obj", "link", "sub":
		sb.WriteString(n.GoT)
		sb.WriteByte('{')
		for _, k := range n.Keys() {
			sb.WriteString(k)
			sb.WriteByte(':')
			if depth < 3 {
				fingerprint(n.Props[k], sb, depth+1)
			} else {
				sb.WriteString(Shape(n.Props[k]))
			}
			sb.WriteByte(',')
		}
		sb.WriteByte('}')
	case "list":
		sb.WriteByte('[')
		for _, e := range n.List {
			if depth < 3 {
				fingerprint(e, sb, depth+1)
			} else {
				sb.WriteString(Shape(e))
			}
			sb.WriteByte(',')
		}
		sb.WriteByte(']')
	default:
		sb.WriteString(Shape(n))
	}
}

// Depth is the nesting depth of embedded objects.
func Depth(n *Node) int {
	if n == nil {
		return 0
	}
	d := 0
	for _, c := range n.Props {
		if x := Depth(c); x > d {
			d = x
		}
	}
	for _, c := range n.List {
		if x := Depth(c); x > d {
			d = x
		}
	}
	if n.Kind == "obj" || n.Kind == "link" {
		return d + 1
	}
	return d
}
