package vmodel

import (
	"fmt"
	"math/rand"
	"reflect"
	"strings"
	"time"

	vocab "github.com/go-ap/activitypub"
)

// Gen builds vocabulary values through reflect. Every value it builds is inside the domain the
// properties quantify over: IRIs are absolute URLs, a struct's Type is a vocabulary name of that
// struct, members of one list carry pairwise distinct ids, language lists have distinct non-empty
// tags when longer than one and non-empty texts.
type Gen struct {
	R        *rand.Rand
	n        int
	PSet     float64 // probability that a field is set in random values
	Exact    bool    // gob domain: nanoseconds, zones, negative durations
	MaxList  int
	Spare    bool // allocate item lists with spare capacity filled with sentinels
	Texts    []string
	Base     string // id prefix
	NoLinks  bool   // do not generate links (for monitors whose pool excludes them)
	Queries  bool   // give a third of the IRIs a query string
	GenericT bool   // allow the generic type names (Object, Activity, Actor, IntransitiveActivity)
}

var benignTexts = []string{"hello", "<p>Hi &amp; bye</p>", "multi word text", "Ünïcödé ✓ 日本語", "a/b?c=d#e", "it's 100% fine; ok!", "tabless, newline-less text with: colon, comma",
	"line\u2028sep\u2029end", "say \"hi\" \\ back", "two\nlines\tand a tab", "😀 astral 𝄞"}

func NewGen(r *rand.Rand) *Gen {
	return &Gen{R: r, PSet: 0.25, MaxList: 3, Texts: benignTexts, Base: "https://example.com", GenericT: true}
}

var genHosts = []string{"example.com", "social.example:8443", "a.b.example.org"}
var genPaths = []string{"", "/users/jdoe", "/o/x%20y", "/a/b/c", "/~x"}

// IRI returns a fresh absolute URL, distinct from every other one this generator returned.
func (g *Gen) IRI() vocab.IRI {
	g.n++
	q := ""
	if g.Queries && g.R.Intn(3) == 0 {
		q = "?a=1&b=2"
	}
	return vocab.IRI(fmt.Sprintf("https://%s%s/%d%s", genHosts[g.R.Intn(len(genHosts))], genPaths[g.R.Intn(len(genPaths))], g.n, q))
}

func (g *Gen) Text() vocab.Content { return vocab.Content(g.Texts[g.R.Intn(len(g.Texts))]) }

var genTags = []vocab.LangRef{"en", "fr", "de-AT", "ro", "pt-BR"}

// NLVShape builds a language list of the given shape: nlv1u nlv1t nlv2 nlv3.
func (g *Gen) NLVShape(shape string) vocab.NaturalLanguageValues {
	n := g.nlvShape(shape)
	if !g.Spare || len(n) == 0 {
		return n
	}
	// spare capacity filled with sentinels, for the list and for every text
	out := make(vocab.NaturalLanguageValues, len(n), len(n)+2)
	for i, e := range n {
		txt := make(vocab.Content, len(e.Value), len(e.Value)+6)
		copy(txt, e.Value)
		copy(txt[len(txt):cap(txt)], "CANARY")
		out[i] = vocab.LangRefValue{Ref: e.Ref, Value: txt}
	}
	full := out[:cap(out)]
	for i := len(n); i < len(full); i++ {
		full[i] = vocab.LangRefValue{Ref: "canary", Value: vocab.Content("canary")}
	}
	return out
}

func (g *Gen) nlvShape(shape string) vocab.NaturalLanguageValues {
	switch shape {
	case "nlv9":
		out := vocab.NaturalLanguageValues{}
		for _, t := range []vocab.LangRef{"en", "fr", "de-AT", "ro", "pt-BR", "es", "it", "nl", "sv"} {
			out = append(out, vocab.LangRefValue{Ref: t, Value: g.Text()})
		}
		return out
	case "nlv-repeated":
		return vocab.NaturalLanguageValues{{Ref: vocab.NilLangRef, Value: vocab.Content("first untagged")}, {Ref: vocab.NilLangRef, Value: vocab.Content("second untagged")},
			{Ref: "en", Value: g.Text()}, {Ref: "en", Value: vocab.Content("another english text")}}
	case "nlv-blank-only":
		// every entry is there without a text: the property says nothing
		return vocab.NaturalLanguageValues{{Ref: vocab.NilLangRef, Value: vocab.Content{}}, {Ref: "en"}}
	case "nlv-blank":
		// a translation that was withdrawn: its entry is still there, without a text (empty in one place, nil in the other),
		// in front of and between entries that have one
		return vocab.NaturalLanguageValues{{Ref: "fr", Value: vocab.Content{}}, {Ref: "en", Value: g.Text()}, {Ref: "ro"}, {Ref: "de", Value: g.Text()}}
	case "nlv-mixed":
		// an untagged text next to tagged ones (a document that gives both the plain term and the Map term)
		return vocab.NaturalLanguageValues{{Ref: vocab.NilLangRef, Value: g.Text()}, {Ref: "en", Value: g.Text()}, {Ref: "fr", Value: g.Text()}}
	case "nlv-long-text":
		return vocab.NaturalLanguageValues{{Ref: vocab.NilLangRef, Value: vocab.Content(strings.Repeat(string(g.Text())+" ", 400))}}
	case "nlv-empty":
		return vocab.NaturalLanguageValues{} // what the constructors pre-allocate
	case "nlv1u":
		return vocab.NaturalLanguageValues{{Ref: vocab.NilLangRef, Value: g.Text()}}
	case "nlv1t":
		return vocab.NaturalLanguageValues{{Ref: genTags[g.R.Intn(len(genTags))], Value: g.Text()}}
	}
	n := 2
	if shape == "nlv3" {
		n = 3
	}
	refs := append([]vocab.LangRef{}, genTags...)
	g.R.Shuffle(len(refs), func(i, j int) { refs[i], refs[j] = refs[j], refs[i] })
	out := vocab.NaturalLanguageValues{}
	for i := 0; i < n; i++ {
		out = append(out, vocab.LangRefValue{Ref: refs[i], Value: g.Text()})
	}
	return out
}

func (g *Gen) NLV() vocab.NaturalLanguageValues {
	if g.Exact && g.R.Intn(4) == 0 {
		// the odd but legal lists: an untagged entry next to tagged ones, repeated tags, entries without a text
		return g.NLVShape([]string{"nlv-mixed", "nlv-repeated", "nlv-blank"}[g.R.Intn(3)])
	}
	return g.NLVShape([]string{"nlv1u", "nlv1u", "nlv1t", "nlv2", "nlv3"}[g.R.Intn(5)])
}

// TimeShape: time-s (UTC whole second), time-ns (nanoseconds, UTC), time-z (non-UTC zone, nanoseconds).
func (g *Gen) TimeShape(shape string) time.Time {
	t := time.Unix(int64(1+g.R.Intn(2000000000)), 0).UTC()
	switch shape {
	case "time-ns":
		t = t.Add(time.Duration(1 + g.R.Intn(999999999)))
	case "time-z":
		t = t.Add(time.Duration(1 + g.R.Intn(999999999))).In(time.FixedZone("X", (g.R.Intn(25)-12)*3600+1800))
	case "time-zs":
		t = t.In(time.FixedZone("Y", (g.R.Intn(25)-12)*3600))
	}
	return t
}

func (g *Gen) Time() time.Time {
	if g.Exact {
		return g.TimeShape([]string{"time-s", "time-ns", "time-z"}[g.R.Intn(3)])
	}
	return g.TimeShape([]string{"time-s", "time-s", "time-zs"}[g.R.Intn(3)])
}

// ItemShapes lists the admissible shapes of an item position.
func ItemShapes(inList bool) []string {
	s := []string{"iri"}
	for _, k := range Kinds {
		if k.Name == "Link" {
			continue
		}
		s = append(s, "obj:"+k.Name)
	}
	s = append(s, "objv:Object", "objv:Activity", "objv:Actor", "obj-idonly", "link-href", "link-full")
	if !inList {
		s = append(s, "obj-typeonly", "obj-neither", "list1", "list2", "list3", "iris2", "list9", "iris17")
	}
	return s
}

// flatStruct builds a struct of the kind with id, type and one marker property.
func (g *Gen) flatStruct(k StructKind, withID, withType bool, marker bool) reflect.Value {
	p := reflect.ValueOf(k.New())
	v := p.Elem()
	if withID {
		v.FieldByName("ID").Set(reflect.ValueOf(g.IRI()))
	}
	if withType {
		v.FieldByName("Type").Set(reflect.ValueOf(vocab.ActivityVocabularyType(k.SpecificType())))
	}
	if marker {
		v.FieldByName("Name").Set(reflect.ValueOf(vocab.NaturalLanguageValues{{Ref: vocab.NilLangRef, Value: g.Text()}}))
	}
	return p
}

// ItemShape builds an item of the given shape.
func (g *Gen) ItemShape(shape string) vocab.Item {
	switch {
	case shape == "iri":
		return g.IRI()
	case strings.HasPrefix(shape, "obj:"):
		k := Kinds[KindIndex(shape[4:])]
		return g.flatStruct(k, true, true, true).Interface().(vocab.Item)
	case strings.HasPrefix(shape, "objv:"):
		k := Kinds[KindIndex(shape[5:])]
		return g.flatStruct(k, true, true, true).Elem().Interface().(vocab.Item)
	case shape == "obj-idonly":
		return g.flatStruct(Kinds[0], true, false, true).Interface().(vocab.Item)
	case shape == "obj-typeonly":
		return g.flatStruct(Kinds[0], false, true, true).Interface().(vocab.Item)
	case shape == "obj-neither":
		return g.flatStruct(Kinds[0], false, false, true).Interface().(vocab.Item)
	case shape == "link-href":
		return &vocab.Link{Type: vocab.LinkType, Href: g.IRI()}
	case shape == "link-full":
		return &vocab.Link{ID: g.IRI(), Type: vocab.MentionType, Href: g.IRI(), Name: g.NLVShape("nlv1u"), MediaType: "text/html"}
	case shape == "list1":
		return g.list(g.ItemShape("obj:Object"))
	case shape == "list2":
		return g.list(g.IRI(), g.ItemShape("obj:Actor"))
	case shape == "list3":
		return g.list(g.ItemShape("obj:Activity"), g.IRI(), g.ItemShape("link-full"))
	case shape == "iris2":
		return vocab.IRIs{g.IRI(), g.IRI()}
	case shape == "list9":
		return g.longList(9)
	case shape == "iris17":
		l := vocab.IRIs{}
		for i := 0; i < 17; i++ {
			l = append(l, g.IRI())
		}
		return l
	}
	panic("gen: unknown item shape " + shape)
}

// Sentinel is the member planted in the spare capacity of item lists.
var Sentinel vocab.Item = vocab.IRI("https://sentinel.invalid/canary")

func (g *Gen) list(items ...vocab.Item) vocab.ItemCollection {
	if !g.Spare {
		return vocab.ItemCollection(items)
	}
	extra := 2
	out := make(vocab.ItemCollection, len(items), len(items)+extra)
	copy(out, items)
	full := out[:cap(out)]
	for i := len(items); i < len(full); i++ {
		full[i] = Sentinel
	}
	return out
}

// longList: lists long enough to cross the thresholds at which implementations switch to an index or a fast path
func (g *Gen) longList(n int) vocab.ItemCollection {
	items := make([]vocab.Item, 0, n)
	kinds := []string{"iri", "obj:Object", "iri", "obj:Actor", "link-full", "iri", "obj:Place", "objv:Object"}
	for i := 0; i < n; i++ {
		items = append(items, g.ItemShape(kinds[i%len(kinds)]))
	}
	return g.list(items...)
}

// ListShape builds an item list of the given shape: "l:"+item shape, l2, l3.
func (g *Gen) ListShape(shape string) vocab.ItemCollection {
	switch shape {
	case "l9":
		return g.longList(9)
	case "l33":
		return g.longList(33)
	case "l-hostroot":
		// a host root with and without its slash next to other ids on the same host (distinct under the IRI equivalence too)
		g.n++
		h, h2 := fmt.Sprintf("https://h%d.example.com", g.n), fmt.Sprintf("https://k%d.example.com", g.n)
		return g.list(vocab.IRI(h+"/"), vocab.IRI(h+"/users/1"), &vocab.Object{ID: vocab.IRI(h + "/o/2"), Type: vocab.NoteType, Name: g.NLVShape("nlv1u")},
			vocab.IRI(h2), vocab.IRI(h2+"/a"), &vocab.Actor{ID: vocab.IRI(h2 + "/actor"), Type: vocab.PersonType})
	case "l-empty":
		return vocab.ItemCollection{} // set but empty: the normal form says absent
	case "l2":
		return g.list(g.IRI(), g.ItemShape("obj:Object"))
	case "l3":
		return g.list(g.ItemShape("obj:Actor"), g.IRI(), g.ItemShape("obj:Place"))
	}
	return g.list(g.ItemShape(strings.TrimPrefix(shape, "l:")))
}

// FieldShapes lists the admissible value shapes of a field of the given Go type.
func FieldShapes(t reflect.Type, exact bool) []string {
	switch {
	case t.Kind() == reflect.Interface:
		return ItemShapes(false)
	case t == IcT:
		s := []string{}
		for _, is := range ItemShapes(true) {
			s = append(s, "l:"+is)
		}
		return append(s, "l2", "l3", "l-empty", "l9", "l33", "l-hostroot")
	case t == NlvT:
		if exact {
			// gob stores the list entry by entry, so several values under one tag (two untagged strings, two "en") are kept;
			// a JSON language map cannot hold them, hence not in the JSON domain
			return []string{"nlv1u", "nlv1t", "nlv2", "nlv3", "nlv-empty", "nlv9", "nlv-long-text", "nlv-mixed", "nlv-repeated", "nlv-blank"}
		}
		return []string{"nlv1u", "nlv1t", "nlv2", "nlv3", "nlv-empty", "nlv9", "nlv-long-text", "nlv-mixed", "nlv-blank", "nlv-blank-only"}
	case t == TimeT:
		if exact {
			return []string{"time-s", "time-ns", "time-z"}
		}
		return []string{"time-s", "time-zs"}
	case t == DurT:
		if exact {
			return []string{"dur-pos", "dur-neg", "dur-ns", "dur-large"}
		}
		return []string{"dur-pos", "dur-neg", "dur-large", "dur-min"}
	case t == IriT:
		return []string{"iri"}
	case t == AvtT:
		// formerType and the like: a vocabulary name of every family, the generic names included
		return []string{"str", "avt-generic", "avt-activity", "avt-collection", "avt-link", "avt-rare"}
	case t == MimeT, t == LangT:
		return []string{"str"}
	case t == SrcT:
		return []string{"src-mt", "src-c1", "src-cN", "src-mt+c1", "src-mt+cN"}
	case t == PkT:
		return []string{"pk-id", "pk-owner", "pk-pem", "pk-id+owner", "pk-id+pem", "pk-owner+pem", "pk-all"}
	case t == EpPtrT:
		s := []string{}
		for i := 0; i < EpT.NumField(); i++ {
			if EpT.Field(i).IsExported() {
				s = append(s, "ep:"+EpT.Field(i).Name)
			}
		}
		return append(s, "ep-all", "ep-obj")
	case t.Kind() == reflect.Uint:
		return []string{"uint-small", "uint-large", "uint-max"}
	case t.Kind() == reflect.Int64:
		return []string{"int-pos", "int-neg", "int-large"}
	case t.Kind() == reflect.Float64:
		return []string{"float-pos", "float-neg", "float-small", "float-large", "float-int"}
	case t.Kind() == reflect.Bool:
		return []string{"true"}
	case t.Kind() == reflect.String:
		return []string{"str"}
	}
	panic("gen: no shapes for " + t.String())
}

const pem = "-----BEGIN PUBLIC KEY-----\nMIIBIjANBgkqhkiG9w0BAQEFAAOCAQ8A\n-----END PUBLIC KEY-----\n"

// SetShape sets field fv (of type t) to a value of the given shape.
func (g *Gen) SetShape(fv reflect.Value, t reflect.Type, shape string) {
	switch {
	case t.Kind() == reflect.Interface:
		fv.Set(reflect.ValueOf(g.ItemShape(shape)))
	case t == IcT:
		fv.Set(reflect.ValueOf(g.ListShape(shape)))
	case t == NlvT:
		fv.Set(reflect.ValueOf(g.NLVShape(shape)))
	case t == TimeT:
		fv.Set(reflect.ValueOf(g.TimeShape(shape)))
	case t == DurT:
		var d time.Duration
		switch shape {
		case "dur-pos":
			d = time.Duration(1+g.R.Intn(86399)) * time.Second
		case "dur-neg":
			d = -time.Duration(1+g.R.Intn(86399)) * time.Second
		case "dur-ns":
			d = time.Duration(1+g.R.Intn(86399))*time.Second + time.Duration(1+g.R.Intn(999999999))
		case "dur-large":
			d = time.Duration(86400+g.R.Intn(86400*400)) * time.Second
		case "dur-min":
			d = time.Second
		}
		fv.Set(reflect.ValueOf(d))
	case t == IriT:
		fv.Set(reflect.ValueOf(g.IRI()))
	case t == MimeT:
		fv.Set(reflect.ValueOf(vocab.MimeType([]string{"text/html", "text/markdown", "image/png"}[g.R.Intn(3)])))
	case t == LangT:
		fv.Set(reflect.ValueOf(vocab.LangRef([]string{"en", "fr"}[g.R.Intn(2)])))
	case t == AvtT:
		names := map[string][]string{"str": {"Note", "Person", "Image"}, "avt-generic": {"Object", "Actor", "Activity", "IntransitiveActivity"}, "avt-activity": {"Create", "TentativeReject", "Travel", "Question"},
			"avt-collection": {"Collection", "OrderedCollection", "CollectionPage", "OrderedCollectionPage"}, "avt-link": {"Link", "Mention"}, "avt-rare": {"Tombstone", "Relationship", "Profile", "Place", "Service"}}[shape]
		fv.Set(reflect.ValueOf(vocab.ActivityVocabularyType(names[g.R.Intn(len(names))])))
	case t == SrcT:
		s := vocab.Source{}
		if strings.Contains(shape, "mt") {
			s.MediaType = "text/markdown"
		}
		if strings.Contains(shape, "c1") {
			s.Content = g.NLVShape("nlv1u")
		}
		if strings.Contains(shape, "cN") {
			s.Content = g.NLVShape("nlv2")
		}
		fv.Set(reflect.ValueOf(s))
	case t == PkT:
		pk := vocab.PublicKey{}
		if strings.Contains(shape, "id") || shape == "pk-all" {
			pk.ID = g.IRI() + "#main-key"
		}
		if strings.Contains(shape, "owner") || shape == "pk-all" {
			pk.Owner = g.IRI()
		}
		if strings.Contains(shape, "pem") || shape == "pk-all" {
			pk.PublicKeyPem = pem
		}
		fv.Set(reflect.ValueOf(pk))
	case t == EpPtrT:
		e := &vocab.Endpoints{}
		ev := reflect.ValueOf(e).Elem()
		switch {
		case shape == "ep-all":
			for i := 0; i < ev.NumField(); i++ {
				if ev.Field(i).CanSet() {
					ev.Field(i).Set(reflect.ValueOf(g.IRI()))
				}
			}
		case shape == "ep-obj":
			e.SharedInbox = g.ItemShape("obj:OrderedCollection")
		default:
			ev.FieldByName(shape[3:]).Set(reflect.ValueOf(g.IRI()))
		}
		fv.Set(reflect.ValueOf(e))
	case t.Kind() == reflect.Uint:
		if shape == "uint-max" {
			// beyond what a signed 64-bit counter holds
			fv.SetUint([]uint64{1 << 63, 1<<64 - 1, 1<<63 + 12345}[g.R.Intn(3)])
		} else if shape == "uint-large" {
			fv.SetUint(uint64(1<<31 + g.R.Intn(1<<30)))
		} else {
			fv.SetUint(uint64(1 + g.R.Intn(5000)))
		}
	case t.Kind() == reflect.Int64:
		switch shape {
		case "int-neg":
			fv.SetInt(-int64(1 + g.R.Intn(5000)))
		case "int-large":
			fv.SetInt(int64(1<<40) + int64(g.R.Intn(1<<30)))
		default:
			fv.SetInt(int64(1 + g.R.Intn(5000)))
		}
	case t.Kind() == reflect.Float64:
		switch shape {
		case "float-neg":
			fv.SetFloat(-(float64(g.R.Intn(360000))/1000 + 0.125))
		case "float-small":
			fv.SetFloat(float64(1+g.R.Intn(9)) * 1e-7)
		case "float-large":
			fv.SetFloat(float64(1+g.R.Intn(9)) * 1e21)
		case "float-int":
			fv.SetFloat(float64(1 + g.R.Intn(1000)))
		default:
			fv.SetFloat(float64(g.R.Intn(360000))/1000 + 0.125)
		}
	case t.Kind() == reflect.Bool:
		fv.SetBool(true)
	case t.Kind() == reflect.String:
		fv.SetString([]string{"km", "m", "miles", "cm"}[g.R.Intn(4)])
	default:
		panic("gen: unhandled " + t.String())
	}
}

// TypeName picks a vocabulary name of the kind.
func (g *Gen) TypeName(k StructKind) string {
	if len(k.Types) == 1 {
		return k.Types[0]
	}
	if !g.GenericT {
		return k.Types[1+g.R.Intn(len(k.Types)-1)]
	}
	return k.Types[g.R.Intn(len(k.Types))]
}

// Struct generates a pointer to a random struct of kind k, nested to at most depth.
func (g *Gen) Struct(k StructKind, depth int, needID bool) any {
	p := k.New()
	v := reflect.ValueOf(p).Elem()
	t := v.Type()
	for i := 0; i < t.NumField(); i++ {
		f := t.Field(i)
		if !f.IsExported() {
			continue
		}
		switch f.Name {
		case "ID":
			if needID || g.R.Float64() < 0.8 {
				v.Field(i).Set(reflect.ValueOf(g.IRI()))
			}
			continue
		case "Type":
			v.Field(i).Set(reflect.ValueOf(vocab.ActivityVocabularyType(g.TypeName(k))))
			continue
		}
		if g.R.Float64() >= g.PSet {
			continue
		}
		g.Fill(v.Field(i), f.Type, depth)
	}
	return p
}

// Item generates a random item for an item position.
func (g *Gen) Item(depth int, allowList bool, needID bool) vocab.Item {
	r := g.R.Intn(10)
	if depth <= 0 || r < 3 {
		return g.IRI()
	}
	if allowList && r == 3 {
		return g.Items(depth, 1+g.R.Intn(g.MaxList))
	}
	k := Kinds[g.R.Intn(len(Kinds))]
	if g.NoLinks && k.Name == "Link" {
		k = Kinds[0]
	}
	if k.Name == "Link" {
		needID = true // a link is only kept apart from its neighbours by its id
	}
	p := g.Struct(k, depth-1, needID)
	if g.R.Intn(8) == 0 && k.Name != "Link" {
		return reflect.ValueOf(p).Elem().Interface().(vocab.Item) // value form
	}
	return p.(vocab.Item)
}

func (g *Gen) Items(depth, n int) vocab.ItemCollection {
	out := make([]vocab.Item, 0, n)
	for i := 0; i < n; i++ {
		out = append(out, g.Item(depth, false, true))
	}
	return g.list(out...)
}

// Fill sets a field of Go type t to a random admissible value.
func (g *Gen) Fill(fv reflect.Value, t reflect.Type, depth int) {
	switch {
	case t.Kind() == reflect.Interface:
		fv.Set(reflect.ValueOf(g.Item(depth, true, false)))
	case t == IcT:
		if g.R.Intn(12) == 0 {
			fv.Set(reflect.ValueOf(vocab.ItemCollection{}))
			return
		}
		fv.Set(reflect.ValueOf(g.Items(depth, 1+g.R.Intn(g.MaxList))))
	case t == NlvT:
		if g.R.Intn(12) == 0 {
			fv.Set(reflect.ValueOf(vocab.NaturalLanguageValues{}))
			return
		}
		fv.Set(reflect.ValueOf(g.NLV()))
	case t == TimeT:
		fv.Set(reflect.ValueOf(g.Time()))
	case t == EpPtrT:
		e := &vocab.Endpoints{}
		ev := reflect.ValueOf(e).Elem()
		any := false
		for i := 0; i < ev.NumField(); i++ {
			if g.R.Intn(2) == 0 && ev.Field(i).CanSet() {
				ev.Field(i).Set(reflect.ValueOf(g.IRI()))
				any = true
			}
		}
		if !any {
			e.SharedInbox = g.IRI()
		}
		fv.Set(reflect.ValueOf(e))
	default:
		shapes := FieldShapes(t, g.Exact)
		g.SetShape(fv, t, shapes[g.R.Intn(len(shapes))])
	}
}

// SingleCase identifies one case of the exhaustive single-field layer.
type SingleCase struct {
	Kind   StructKind
	Field  Field
	Shape  string
	WithID bool
}

func (s SingleCase) String() string {
	id := "noid"
	if s.WithID {
		id = "id"
	}
	return fmt.Sprintf("%s.%s=%s(%s)", s.Kind.Name, s.Field.Term, s.Shape, id)
}

// SingleCases enumerates kind x field x admissible shape x {id set, id unset}.
func SingleCases(exact bool) []SingleCase {
	var out []SingleCase
	for _, k := range Kinds {
		for _, f := range k.Fields() {
			if f.Name == "ID" || f.Name == "Type" {
				continue
			}
			for _, sh := range FieldShapes(f.Type, exact) {
				out = append(out, SingleCase{k, f, sh, true}, SingleCase{k, f, sh, false})
			}
		}
	}
	return out
}

// BuildSingle builds the value of a single-field case (pointer to struct).
func (g *Gen) BuildSingle(c SingleCase) any {
	p := c.Kind.New()
	v := reflect.ValueOf(p).Elem()
	if c.WithID {
		v.FieldByName("ID").Set(reflect.ValueOf(g.IRI()))
	}
	v.FieldByName("Type").Set(reflect.ValueOf(vocab.ActivityVocabularyType(c.Kind.SpecificType())))
	g.SetShape(v.Field(c.Field.Index), c.Field.Type, c.Shape)
	return p
}

// BareCase: an embedded object that carries nothing but one property (no id; with or without a type name), so that whether
// it counts as "not empty" hangs on that one property.
type BareCase struct {
	Kind     StructKind
	Field    Field
	WithType bool
	Shape    string
}

func (b BareCase) String() string {
	t := "untyped"
	if b.WithType {
		t = "typed"
	}
	return fmt.Sprintf("bare %s %s with only %s=%s", t, b.Kind.Name, b.Field.Term, b.Shape)
}

func BareCases() []BareCase {
	var out []BareCase
	for _, k := range Kinds {
		if k.Name == "Link" {
			continue
		}
		for _, f := range k.Fields() {
			if f.Name == "ID" || f.Name == "Type" {
				continue
			}
			shapes := FieldShapes(f.Type, false)
			if f.Type.Kind() == reflect.Interface || f.Type == IcT {
				shapes = shapes[:1] // items and lists: one shape; the scalar kinds: every shape (sign, size, zero-adjacent values)
			}
			for _, sh := range shapes {
				if strings.HasSuffix(sh, "-empty") || sh == "nlv-blank-only" {
					continue // set-but-empty is "unset" in the normal form: such an object has nothing to say at all
				}
				out = append(out, BareCase{k, f, true, sh})
				if k.Name == "Object" {
					out = append(out, BareCase{k, f, false, sh}) // an untyped object decodes as Object
				}
			}
		}
	}
	return out
}

// BuildBare returns the bare object and a host that embeds it.
func (g *Gen) BuildBare(c BareCase, exact bool) (inner vocab.Item, host any) {
	p := c.Kind.New()
	v := reflect.ValueOf(p).Elem()
	if c.WithType {
		v.FieldByName("Type").Set(reflect.ValueOf(vocab.ActivityVocabularyType(c.Kind.SpecificType())))
	}
	g.SetShape(v.Field(c.Field.Index), c.Field.Type, c.Shape)
	inner = p.(vocab.Item)
	return inner, &vocab.Activity{ID: g.IRI(), Type: vocab.LikeType, Object: inner, Tag: vocab.ItemCollection{g.IRI(), inner}}
}

// PairCase identifies one case of the field-pair layer.
type PairCase struct {
	Kind   StructKind
	F1, F2 Field
	Var    int
}

func (p PairCase) String() string {
	return fmt.Sprintf("%s.{%s,%s}#%d", p.Kind.Name, p.F1.Term, p.F2.Term, p.Var)
}

// PairCases enumerates kind x C(fields,2) x 2 shape variants.
func PairCases() []PairCase {
	var out []PairCase
	for _, k := range Kinds {
		fs := k.Fields()
		for i := 0; i < len(fs); i++ {
			if fs[i].Name == "ID" || fs[i].Name == "Type" {
				continue
			}
			for j := i + 1; j < len(fs); j++ {
				if fs[j].Name == "ID" || fs[j].Name == "Type" {
					continue
				}
				out = append(out, PairCase{k, fs[i], fs[j], 0}, PairCase{k, fs[i], fs[j], 1})
			}
		}
	}
	return out
}

func (g *Gen) BuildPair(c PairCase, exact bool) any {
	p := c.Kind.New()
	v := reflect.ValueOf(p).Elem()
	v.FieldByName("ID").Set(reflect.ValueOf(g.IRI()))
	v.FieldByName("Type").Set(reflect.ValueOf(vocab.ActivityVocabularyType(c.Kind.SpecificType())))
	for _, f := range []Field{c.F1, c.F2} {
		sh := FieldShapes(f.Type, exact)
		var s string
		if c.Var == 0 {
			s = sh[0]
		} else {
			s = sh[g.R.Intn(len(sh))]
		}
		g.SetShape(v.Field(f.Index), f.Type, s)
	}
	return p
}

// DeepCopy clones a vocabulary value through reflect (slices, pointers and interfaces are copied).
func DeepCopy(x any) any {
	if x == nil {
		return nil
	}
	return deepCopyV(reflect.ValueOf(x)).Interface()
}

func deepCopyV(v reflect.Value) reflect.Value {
	switch v.Kind() {
	case reflect.Pointer:
		if v.IsNil() {
			return v
		}
		n := reflect.New(v.Type().Elem())
		n.Elem().Set(deepCopyV(v.Elem()))
		return n
	case reflect.Interface:
		if v.IsNil() {
			return v
		}
		n := reflect.New(v.Type()).Elem()
		n.Set(deepCopyV(v.Elem()))
		return n
	case reflect.Struct:
		if v.Type() == TimeT {
			return v
		}
		n := reflect.New(v.Type()).Elem()
		n.Set(v) // unexported fields are copied shallowly
		for i := 0; i < v.NumField(); i++ {
			if v.Type().Field(i).IsExported() {
				n.Field(i).Set(deepCopyV(v.Field(i)))
			}
		}
		return n
	case reflect.Slice:
		if v.IsNil() {
			return v
		}
		n := reflect.MakeSlice(v.Type(), v.Len(), v.Cap())
		full := v.Slice(0, v.Cap())
		nf := n.Slice(0, v.Cap())
		for i := 0; i < v.Cap(); i++ {
			nf.Index(i).Set(deepCopyV(full.Index(i)))
		}
		return n
	}
	return v
}
