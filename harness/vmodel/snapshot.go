package vmodel

import (
	"fmt"
	"hash/fnv"
	"reflect"
	"strings"
)

// Snapshot is a deep, byte-level record of a value and of everything it references: besides the
// contents it records, for every reachable slice, the whole backing array up to cap - so an
// append(x[:i], ...) that writes into the caller's spare capacity changes the snapshot although
// no comparison of the value itself would notice.
type Snapshot struct {
	Entries []string // path = rendering, in walk order
}

func TakeSnapshot(x any) *Snapshot {
	s := &Snapshot{}
	if x == nil {
		return s
	}
	s.walk("", reflect.ValueOf(x), 0)
	return s
}

func (s *Snapshot) add(path, v string) { s.Entries = append(s.Entries, path+" = "+v) }

func (s *Snapshot) walk(path string, v reflect.Value, depth int) {
	if depth > 40 {
		s.add(path, "<too deep>")
		return
	}
	switch v.Kind() {
	case reflect.Invalid:
		s.add(path, "<invalid>")
	case reflect.Interface:
		if v.IsNil() {
			s.add(path, "<nil interface>")
			return
		}
		s.add(path+"@type", v.Elem().Type().String())
		s.walk(path, v.Elem(), depth+1)
	case reflect.Pointer:
		if v.IsNil() {
			s.add(path, "<nil "+v.Type().String()+">")
			return
		}
		s.walk(path+"*", v.Elem(), depth+1)
	case reflect.Struct:
		if v.Type() == TimeT {
			s.add(path, fmt.Sprintf("%#v", v.Interface()))
			return
		}
		for i := 0; i < v.NumField(); i++ {
			if v.Type().Field(i).Name == "_" {
				continue // padding
			}
			s.walk(path+"."+v.Type().Field(i).Name, v.Field(i), depth+1)
		}
	case reflect.Slice:
		if v.IsNil() {
			s.add(path, "<nil slice>")
			return
		}
		s.add(path+"@len/cap", fmt.Sprintf("%d/%d", v.Len(), v.Cap()))
		full := v.Slice(0, v.Cap())
		if v.Type().Elem().Kind() == reflect.Uint8 {
			s.add(path+"@bytes", fmt.Sprintf("%x", full.Bytes()))
			return
		}
		for i := 0; i < full.Len(); i++ {
			s.walk(fmt.Sprintf("%s[%d]", path, i), full.Index(i), depth+1)
		}
	case reflect.String:
		s.add(path, fmt.Sprintf("%q", v.String()))
	default:
		s.add(path, fmt.Sprintf("%v", v.Interface()))
	}
}

// Hash is a digest of the snapshot.
func (s *Snapshot) Hash() uint64 {
	h := fnv.New64a()
	for _, e := range s.Entries {
		_, _ = h.Write([]byte(e))
		_, _ = h.Write([]byte{0})
	}
	return h.Sum64()
}

// FirstDiff names the first entry that differs between two snapshots ("" if none).
func (s *Snapshot) FirstDiff(o *Snapshot) string {
	n := len(s.Entries)
	if len(o.Entries) < n {
		n = len(o.Entries)
	}
	for i := 0; i < n; i++ {
		if s.Entries[i] != o.Entries[i] {
			a, b := s.Entries[i], o.Entries[i]
			if len(a) > 160 {
				a = a[:160]
			}
			if len(b) > 160 {
				b = b[:160]
			}
			return a + "  ->  " + b
		}
	}
	if len(s.Entries) != len(o.Entries) {
		return fmt.Sprintf("%d entries -> %d entries", len(s.Entries), len(o.Entries))
	}
	return ""
}

// DiffField extracts the top-level field a diff entry lies under.
func DiffField(d string) string {
	d = strings.TrimPrefix(d, "*")
	d = strings.TrimPrefix(d, ".")
	if i := strings.IndexAny(d, ".[@* "); i > 0 {
		return d[:i]
	}
	return d
}

// SnapshotHash computes the digest of the same walk without materialising the entries.
func SnapshotHash(x any) uint64 {
	h := fnv.New64a()
	if x != nil {
		hashWalk(h, reflect.ValueOf(x), 0)
	}
	return h.Sum64()
}

type hasher interface{ Write([]byte) (int, error) }

var nilMark, sepMark = []byte{0xff, 0x00}, []byte{0xfe}

func hashWalk(h hasher, v reflect.Value, depth int) {
	if depth > 40 {
		return
	}
	switch v.Kind() {
	case reflect.Interface:
		if v.IsNil() {
			_, _ = h.Write(nilMark)
			return
		}
		_, _ = h.Write([]byte(v.Elem().Type().String()))
		hashWalk(h, v.Elem(), depth+1)
	case reflect.Pointer:
		if v.IsNil() {
			_, _ = h.Write(nilMark)
			return
		}
		_, _ = h.Write([]byte{'*'})
		hashWalk(h, v.Elem(), depth+1)
	case reflect.Struct:
		if v.Type() == TimeT {
			_, _ = h.Write([]byte(fmt.Sprintf("%#v", v.Interface())))
			return
		}
		for i := 0; i < v.NumField(); i++ {
			if v.Type().Field(i).Name == "_" {
				continue // padding
			}
			hashWalk(h, v.Field(i), depth+1)
			_, _ = h.Write(sepMark)
		}
	case reflect.Slice:
		if v.IsNil() {
			_, _ = h.Write(nilMark)
			return
		}
		var hdr [16]byte
		l, c := uint64(v.Len()), uint64(v.Cap())
		for i := 0; i < 8; i++ {
			hdr[i], hdr[8+i] = byte(l>>(8*i)), byte(c>>(8*i))
		}
		_, _ = h.Write(hdr[:])
		full := v.Slice(0, v.Cap())
		if v.Type().Elem().Kind() == reflect.Uint8 {
			_, _ = h.Write(full.Bytes())
			return
		}
		for i := 0; i < full.Len(); i++ {
			hashWalk(h, full.Index(i), depth+1)
			_, _ = h.Write(sepMark)
		}
	case reflect.String:
		_, _ = h.Write([]byte(v.String()))
		_, _ = h.Write(sepMark)
	case reflect.Bool:
		if v.Bool() {
			_, _ = h.Write([]byte{1})
		} else {
			_, _ = h.Write([]byte{0})
		}
	case reflect.Int, reflect.Int64, reflect.Int32:
		var b [8]byte
		x := uint64(v.Int())
		for i := 0; i < 8; i++ {
			b[i] = byte(x >> (8 * i))
		}
		_, _ = h.Write(b[:])
	case reflect.Uint, reflect.Uint64, reflect.Uint32, reflect.Uint8:
		var b [8]byte
		x := v.Uint()
		for i := 0; i < 8; i++ {
			b[i] = byte(x >> (8 * i))
		}
		_, _ = h.Write(b[:])
	default:
		_, _ = h.Write([]byte(fmt.Sprintf("%v", v.Interface())))
	}
}
