package vmodel

import (
	"encoding/json"
	"fmt"
	"math/rand"
	"strconv"
	"strings"
	"time"
)

// DocWriter serialises a canonical tree as an ActivityStreams document with the shape freedom the
// vocabulary admits. It is an independent writer: scalars go through encoding/json, objects and
// arrays are composed here so that member order and whitespace can vary.
type DocWriter struct {
	R          *rand.Rand
	Shuffle    bool // random member order
	Whitespace bool // insignificant whitespace
	UEscapes   bool // \uXXXX escapes for some ASCII letters
	ShapeFree  bool // item as 1-element array, 1-element list as bare element, single text as 1-entry map
	Choices    []string
}

func (w *DocWriter) note(s string) {
	if len(w.Choices) < 12 {
		w.Choices = append(w.Choices, s)
	}
}

func (w *DocWriter) ws(sb *strings.Builder) {
	if w.Whitespace && w.R.Intn(3) == 0 {
		sb.WriteString([]string{" ", "\n", "\t", "  ", "\r\n "}[w.R.Intn(5)])
	}
}

// String writes a JSON string literal.
func (w *DocWriter) String(sb *strings.Builder, s string) {
	if !w.UEscapes {
		b, _ := json.Marshal(s)
		sb.Write(b)
		return
	}
	sb.WriteByte('"')
	for _, r := range s {
		if r < 0x80 && ((r >= 'a' && r <= 'z') || (r >= 'A' && r <= 'Z')) && w.R.Intn(6) == 0 {
			fmt.Fprintf(sb, `\u%04x`, r)
			continue
		}
		b, _ := json.Marshal(string(r))
		sb.Write(b[1 : len(b)-1])
	}
	sb.WriteByte('"')
}

type member struct {
	name string
	val  func(sb *strings.Builder)
}

func (w *DocWriter) object(sb *strings.Builder, ms []member) {
	if w.Shuffle {
		w.R.Shuffle(len(ms), func(i, j int) { ms[i], ms[j] = ms[j], ms[i] })
	}
	sb.WriteByte('{')
	for i, m := range ms {
		if i > 0 {
			sb.WriteByte(',')
		}
		w.ws(sb)
		w.String(sb, m.name)
		w.ws(sb)
		sb.WriteByte(':')
		w.ws(sb)
		m.val(sb)
		w.ws(sb)
	}
	sb.WriteByte('}')
}

// XSDDuration formats a whole-second duration with day and time designators.
func XSDDuration(d time.Duration) string {
	if d == 0 {
		return "PT0S"
	}
	sb := strings.Builder{}
	if d < 0 {
		sb.WriteByte('-')
		d = -d
	}
	sb.WriteByte('P')
	days := d / (24 * time.Hour)
	d -= days * 24 * time.Hour
	if days > 0 {
		fmt.Fprintf(&sb, "%dD", days)
	}
	if d > 0 {
		sb.WriteByte('T')
		h := d / time.Hour
		d -= h * time.Hour
		m := d / time.Minute
		d -= m * time.Minute
		s := d / time.Second
		if h > 0 {
			fmt.Fprintf(&sb, "%dH", h)
		}
		if m > 0 {
			fmt.Fprintf(&sb, "%dM", m)
		}
		if s > 0 {
			fmt.Fprintf(&sb, "%dS", s)
		}
	}
	return sb.String()
}

// Write serialises node n (the canonical JSON-mode tree of a struct value of the given kind).
func (w *DocWriter) Write(n *Node) string {
	sb := &strings.Builder{}
	w.value(sb, n, nil, "", false)
	return sb.String()
}

func fieldOf(owner *Node, term string) (Field, bool) {
	if owner == nil {
		return Field{}, false
	}
	switch owner.GoT {
	case "Source":
		for i := 0; i < SrcT.NumField(); i++ {
			if Term(SrcT.Field(i)) == term {
				return Field{i, SrcT.Field(i).Name, term, SrcT.Field(i).Type}, true
			}
		}
	case "PublicKey":
		for i := 0; i < PkT.NumField(); i++ {
			if Term(PkT.Field(i)) == term {
				return Field{i, PkT.Field(i).Name, term, PkT.Field(i).Type}, true
			}
		}
	case "Endpoints":
		for i := 0; i < EpT.NumField(); i++ {
			if Term(EpT.Field(i)) == term {
				return Field{i, EpT.Field(i).Name, term, EpT.Field(i).Type}, true
			}
		}
	}
	ki := KindIndex(owner.GoT)
	if ki < 0 {
		return Field{}, false
	}
	return Kinds[ki].FieldByTerm(term)
}

func (w *DocWriter) value(sb *strings.Builder, n *Node, owner *Node, term string, asMap bool) {
	switch n.Kind {
	case "obj", "link", "sub":
		var ms []member
		for _, k := range n.Keys() {
			k := k
			child := n.Props[k]
			name := k
			asMap := false
			wrap := false
			if child.Kind == "nlv" {
				if len(child.List) > 1 || (w.ShapeFree && w.R.Intn(4) == 0) {
					name = k + "Map"
					asMap = true
					if len(child.List) == 1 {
						w.note(k + " as a one-entry language map")
					}
				}
			}
			if f, ok := fieldOf(n, k); ok && IsItemType(f.Type) && (child.Kind == "iri" || child.Kind == "obj" || child.Kind == "link") && w.ShapeFree && w.R.Intn(5) == 0 {
				wrap = true
				w.note(k + " (single item) as a one-element array")
			}
			if child.Kind == "nlv" && len(child.List) > 1 && strings.HasPrefix(child.List[0].S, "-\x00") && w.R.Intn(2) == 0 {
				// an untagged text next to tagged ones: the plain term for the former, the Map term for the rest
				plainText := strings.SplitN(child.List[0].S, "\x00", 2)[1]
				rest := &Node{Kind: "nlv", List: child.List[1:]}
				w.note(k + " as plain string plus language map")
				ms = append(ms, member{k, func(sb *strings.Builder) { w.String(sb, plainText) }},
					member{k + "Map", func(sb *strings.Builder) { w.value(sb, rest, n, k, true) }})
				continue
			}
			ms = append(ms, member{name, func(sb *strings.Builder) {
				if wrap {
					sb.WriteByte('[')
					w.ws(sb)
				}
				w.value(sb, child, n, k, asMap)
				if wrap {
					w.ws(sb)
					sb.WriteByte(']')
				}
			}})
		}
		w.object(sb, ms)
	case "iri":
		w.String(sb, n.S)
	case "list":
		f, ok := fieldOf(owner, term)
		listTyped := ok && f.Type == IcT
		if len(n.List) == 1 && listTyped && w.ShapeFree && w.R.Intn(2) == 0 {
			w.note(term + " (list property) as a bare element")
			w.value(sb, n.List[0], nil, "", false)
			return
		}
		sb.WriteByte('[')
		for i, e := range n.List {
			if i > 0 {
				sb.WriteByte(',')
			}
			w.ws(sb)
			w.value(sb, e, nil, "", false)
		}
		w.ws(sb)
		sb.WriteByte(']')
		return
	case "nlv":
		if len(n.List) == 1 {
			p := strings.SplitN(n.List[0].S, "\x00", 2)
			if asMap {
				// a lone text may carry a language tag in the document; in the JSON normal form a lone tag does not count
				key := p[0]
				if key == "-" {
					key = []string{"fr", "en-GB", "de"}[len(p[1])%3]
				}
				w.object(sb, []member{{key, func(sb *strings.Builder) { w.String(sb, p[1]) }}})
				return
			}
			w.String(sb, p[1])
			return
		}
		var ms []member
		for _, e := range n.List {
			p := strings.SplitN(e.S, "\x00", 2)
			ms = append(ms, member{p[0], func(sb *strings.Builder) { w.String(sb, p[1]) }})
		}
		keep := w.Shuffle
		w.Shuffle = false // language order is part of the value
		w.object(sb, ms)
		w.Shuffle = keep
		return
	case "time":
		t, _ := time.Parse(time.RFC3339, n.S)
		if w.ShapeFree && w.R.Intn(3) == 0 {
			t = t.In(time.FixedZone("", (w.R.Intn(25)-12)*3600))
			w.note(term + " with a zone offset")
		}
		w.String(sb, t.Format(time.RFC3339))
	case "dur":
		ns, _ := strconv.ParseInt(n.S, 10, 64)
		w.String(sb, XSDDuration(time.Duration(ns)))
	case "int", "uint":
		sb.WriteString(n.S)
	case "float":
		f, _ := strconv.ParseFloat(n.S, 64)
		b, _ := json.Marshal(f)
		sb.Write(b)
	case "bool":
		sb.WriteString(n.S)
	case "str":
		w.String(sb, n.S)
	default:
		panic("doc: unhandled node kind " + n.Kind)
	}
}

// ItemTerms are the terms whose value is an item or an item list in some vocabulary struct.
var ItemTerms = func() map[string]bool {
	m := map[string]bool{}
	for _, k := range Kinds {
		for _, f := range k.Fields() {
			if IsItemType(f.Type) || f.Type == IcT {
				m[f.Term] = true
			}
		}
	}
	for i := 0; i < EpT.NumField(); i++ {
		if EpT.Field(i).IsExported() {
			m[Term(EpT.Field(i))] = true
		}
	}
	return m
}()

// ListTerms are the terms whose Go field is list typed in every struct that declares them.
var ListTerms = func() map[string]bool {
	m := map[string]bool{}
	for _, k := range Kinds {
		for _, f := range k.Fields() {
			if f.Type == IcT {
				m[f.Term] = true
			}
		}
	}
	return m
}()

// WriteJVal re-serialises a parsed document with structure preserving mutations: member
// permutation, insignificant whitespace, \u escapes, and scalar <-> one-element array in item positions.
func (w *DocWriter) WriteJVal(v *JVal) string {
	sb := &strings.Builder{}
	w.jval(sb, v, "", true)
	return sb.String()
}

func (w *DocWriter) jval(sb *strings.Builder, v *JVal, term string, vocabLevel bool) {
	switch v.Kind {
	case "object":
		var ms []member
		for _, m := range v.Members {
			m := m
			// members of language maps and of @context are not vocabulary objects
			childVocab := vocabLevel && !strings.HasSuffix(m.Name, "Map") && m.Name != "@context"
			ms = append(ms, member{m.Name, func(sb *strings.Builder) {
				if vocabLevel && w.ShapeFree && ItemTerms[m.Name] && !ListTerms[m.Name] && m.Name != "url" {
					switch {
					case (m.Val.Kind == "string" || m.Val.Kind == "object") && w.R.Intn(4) == 0:
						w.note(m.Name + " scalar -> one-element array")
						sb.WriteByte('[')
						w.jval(sb, m.Val, m.Name, childVocab)
						sb.WriteByte(']')
						return
					case m.Val.Kind == "array" && len(m.Val.Arr) == 1 && w.R.Intn(2) == 0:
						w.note(m.Name + " one-element array -> scalar")
						w.jval(sb, m.Val.Arr[0], m.Name, childVocab)
						return
					}
				}
				w.jval(sb, m.Val, m.Name, childVocab)
			}})
		}
		keep := w.Shuffle
		if !vocabLevel {
			w.Shuffle = false
		}
		w.object(sb, ms)
		w.Shuffle = keep
	case "array":
		sb.WriteByte('[')
		for i, e := range v.Arr {
			if i > 0 {
				sb.WriteByte(',')
			}
			w.ws(sb)
			w.jval(sb, e, term, vocabLevel)
		}
		w.ws(sb)
		sb.WriteByte(']')
	case "string":
		w.String(sb, v.S)
	case "number", "bool":
		sb.WriteString(v.S)
	case "null":
		sb.WriteString("null")
	}
}
