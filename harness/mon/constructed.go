package mon

import (
	"time"

	vocab "github.com/go-ap/activitypub"
)

// Values the way applications obtain them: made by the library's own constructors (which pre-allocate empty language lists
// and set types), then filled through the exported API. Shared by several monitors as one more exhaustive layer.
type constructedValue struct {
	Label string
	Make  func() vocab.Item
}

func constructedValues() []constructedValue {
	id := func(s string) vocab.ID { return vocab.ID("https://example.com/made/" + s) }
	nl := func(s string) vocab.NaturalLanguageValues { return vocab.DefaultNaturalLanguageValue(s) }
	when := time.Date(2021, 3, 4, 5, 6, 7, 0, time.UTC)
	return []constructedValue{
		{"ObjectNew(Note)+content", func() vocab.Item {
			o := vocab.ObjectNew(vocab.NoteType)
			o.ID = id("note")
			o.Content = nl("<p>hello</p>")
			_ = o.Summary.Append("en", vocab.Content("short"))
			_ = o.Summary.Append("fr", vocab.Content("court"))
			o.Published = when
			o.To = vocab.ItemCollection{vocab.PublicNS}
			return o
		}},
		{"ObjectNew(Article) bare", func() vocab.Item { o := vocab.ObjectNew(vocab.ArticleType); o.ID = id("article"); return o }},
		{"PersonNew+boxes", func() vocab.Item {
			p := vocab.PersonNew(id("jdoe"))
			p.PreferredUsername = nl("jdoe")
			p.Inbox = vocab.Inbox.IRI(p)
			p.Outbox = vocab.Outbox.IRI(p)
			p.Followers = vocab.Followers.IRI(p)
			p.PublicKey = vocab.PublicKey{ID: id("jdoe") + "#main-key", Owner: id("jdoe"), PublicKeyPem: "-----BEGIN PUBLIC KEY-----\nabc\n-----END PUBLIC KEY-----\n"}
			p.Endpoints = &vocab.Endpoints{SharedInbox: id("shared-inbox")}
			return p
		}},
		{"ServiceNew bare", func() vocab.Item { return vocab.ServiceNew(id("bot")) }},
		{"ActorNew(Actor)", func() vocab.Item {
			a := vocab.ActorNew(id("generic"), vocab.ActorType)
			a.Name = nl("generic actor")
			return a
		}},
		{"CreateNew(note by person)", func() vocab.Item {
			o := vocab.ObjectNew(vocab.NoteType)
			o.ID = id("created")
			o.Name = nl("created note")
			c := vocab.CreateNew(id("create"), o)
			c.Actor = vocab.PersonNew(id("author"))
			c.Published = when
			c.CC = vocab.ItemCollection{id("author") + "/followers"}
			return c
		}},
		{"LikeNew(iri)", func() vocab.Item { l := vocab.LikeNew(id("like"), id("liked")); l.Actor = id("liker"); return l }},
		{"AddNew(ob,target)", func() vocab.Item { return vocab.AddNew(id("add"), id("thing"), id("target-collection")) }},
		{"ActivityNew(Activity)", func() vocab.Item { return vocab.ActivityNew(id("generic-activity"), vocab.ActivityType, id("thing")) }},
		{"UndoNew(LikeNew)", func() vocab.Item {
			return vocab.UndoNew(id("undo"), vocab.LikeNew(id("like-2"), id("liked-2")))
		}},
		{"ArriveNew+location", func() vocab.Item {
			a := vocab.ArriveNew(id("arrive"))
			a.Actor = id("traveller")
			a.Location = &vocab.Place{ID: id("place"), Type: vocab.PlaceType, Latitude: 44.4268, Longitude: 26.1025, Name: nl("Bucharest")}
			return a
		}},
		{"QuestionNew+choices", func() vocab.Item {
			q := vocab.QuestionNew(id("question"))
			q.Name = nl("tea or coffee?")
			q.OneOf = vocab.ItemCollection{&vocab.Object{Type: vocab.NoteType, Name: nl("tea")}, &vocab.Object{Type: vocab.NoteType, Name: nl("coffee")}}
			q.Closed = true
			return q
		}},
		{"CollectionNew+items", func() vocab.Item {
			c := vocab.CollectionNew(id("collection"))
			_ = c.Append(id("m/1"), vocab.ObjectNew(vocab.NoteType), id("m/2"))
			c.TotalItems = c.Count()
			return c
		}},
		{"OrderedCollectionNew+items+page", func() vocab.Item {
			c := vocab.OrderedCollectionNew(id("ordered"))
			_ = c.Append(id("o/1"), id("o/2"), id("o/3"))
			c.TotalItems = c.Count()
			p := vocab.OrderedCollectionPageNew(c)
			c.First = p.GetLink()
			return c
		}},
		{"OrderedCollectionPageNew(parent)+items", func() vocab.Item {
			c := vocab.OrderedCollectionNew(id("ordered-parent"))
			p := vocab.OrderedCollectionPageNew(c)
			_ = p.Append(id("p/1"), id("p/2"))
			p.StartIndex = 10
			p.TotalItems = 2
			return p
		}},
		{"CollectionPageNew(parent)", func() vocab.Item {
			c := vocab.CollectionNew(id("parent"))
			p := vocab.CollectionPageNew(c)
			_ = p.Append(id("cp/1"))
			return p
		}},
		{"LinkNew(Link)+href", func() vocab.Item {
			l := vocab.LinkNew(id("link"), vocab.LinkType)
			l.Href = id("href")
			l.Name = nl("a link")
			l.Width, l.Height = 640, 480
			return l
		}},
		{"MentionNew+href", func() vocab.Item {
			m := vocab.MentionNew(id("mention"))
			m.Href = id("mentioned")
			m.Name = nl("@someone")
			return m
		}},
		{"decoded then modified", func() vocab.Item {
			it, err := vocab.UnmarshalJSON([]byte(`{"id":"https://example.com/made/decoded","type":"Note","name":"decoded","to":["https://www.w3.org/ns/activitystreams#Public"],"tag":[{"type":"Mention","href":"https://example.com/made/m","name":"@m"}]}`))
			if err != nil || it == nil {
				return nil
			}
			_ = vocab.OnObject(it, func(o *vocab.Object) error {
				o.Updated = when
				_ = o.Summary.Append("en", vocab.Content("added later"))
				_ = o.Tag.Append(id("another-tag"))
				return nil
			})
			return it
		}},
	}
}

var allConstructed = constructedValues()
