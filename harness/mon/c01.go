package mon

import (
	"encoding/json"
	"fmt"
	"math/rand"
	"reflect"

	vocab "github.com/go-ap/activitypub"
	"github.com/valyala/fastjson"

	"verif/harness/vmodel"
)

// ---- shared codec round-trip machinery (C01 JSON, C03 gob) ----

type codecPair struct {
	name string
	enc  func(x any) ([]byte, error)
	dec  func(b []byte, like any) (any, error)
}

func callMarshal(x any, method string) ([]byte, error) {
	m := reflect.ValueOf(x).MethodByName(method)
	if !m.IsValid() {
		return nil, fmt.Errorf("no method %s on %T", method, x)
	}
	out := m.Call(nil)
	var err error
	if e := out[1].Interface(); e != nil {
		err = e.(error)
	}
	return out[0].Bytes(), err
}

func callUnmarshal(like any, method string, b []byte) (any, error) {
	t := reflect.TypeOf(like)
	if t.Kind() == reflect.Pointer {
		t = t.Elem()
	}
	p := reflect.New(t)
	m := p.MethodByName(method)
	if !m.IsValid() {
		return nil, fmt.Errorf("no method %s on %s", method, p.Type())
	}
	out := m.Call([]reflect.Value{reflect.ValueOf(b)})
	if e := out[0].Interface(); e != nil {
		return p.Interface(), e.(error)
	}
	return p.Interface(), nil
}

var jsonPairs = []codecPair{
	{"pkg", func(x any) ([]byte, error) { return vocab.MarshalJSON(x.(vocab.Item)) },
		func(b []byte, _ any) (any, error) { it, err := vocab.UnmarshalJSON(b); return it, err }},
	{"method", func(x any) ([]byte, error) { return callMarshal(x, "MarshalJSON") },
		func(b []byte, like any) (any, error) { return callUnmarshal(like, "UnmarshalJSON", b) }},
}

// decoded values must stay what they were when later, unrelated inputs are decoded (a pooled parser or a shared scratch
// buffer aliased by a decoded value shows up here, not in the comparison right after the decode)
type keptValue struct {
	v     any
	hash  uint64
	label string
	codec string
}

var keptRing [8]keptValue
var keptN int

func keepDecoded(c *Ctx, codec string, mode vmodel.Mode, v any, label string) {
	// first re-check everything kept so far
	for i := range keptRing {
		k := &keptRing[i]
		if k.v == nil {
			continue
		}
		if h := vmodel.SnapshotHash(k.v); h != k.hash {
			c.Fail(k.codec+"|decoded-value-changed-later", fmt.Sprintf("a value decoded earlier (%s) changed after later, unrelated decodes (last: %s)", k.label, label),
				map[string]any{"earlier": k.label, "later": label, "now": clipS(vmodel.Canon(k.v, mode).String(), 300)})
			k.v = nil
		}
	}
	if v == nil {
		return
	}
	c.Count("kept-values-rechecked", 1)
	keptRing[keptN%len(keptRing)] = keptValue{v, vmodel.SnapshotHash(v), label, codec}
	keptN++
}

// encoded bytes handed to the caller must stay what they were when later values are encoded
type keptBytes struct {
	b     []byte
	hash  uint64
	label string
	codec string
}

var bytesRing [8]keptBytes
var bytesN int

func keepEncoded(c *Ctx, codec string, b []byte, label string) {
	for i := range bytesRing {
		k := &bytesRing[i]
		if k.b == nil {
			continue
		}
		if H64(string(k.b)) != k.hash {
			c.Fail(k.codec+"|encoded-bytes-changed-later", fmt.Sprintf("bytes returned by an earlier encode (%s) changed after later encodes (last: %s)", k.label, label), map[string]any{"earlier": k.label, "later": label})
			k.b = nil
		}
	}
	if len(b) == 0 {
		return
	}
	bytesRing[bytesN%len(bytesRing)] = keptBytes{b, H64(string(b)), label, codec}
	bytesN++
}

// allNamesValue builds a moderately populated value typed with the idx-th vocabulary name.
func allNamesValue(g *vmodel.Gen, idx int) (any, string) {
	var names []struct {
		k vmodel.StructKind
		t string
	}
	for _, k := range vmodel.Kinds {
		for _, t := range k.Types {
			names = append(names, struct {
				k vmodel.StructKind
				t string
			}{k, t})
		}
	}
	n := names[idx%len(names)]
	g.PSet = 0.5
	p := g.Struct(n.k, 1, true)
	reflect.ValueOf(p).Elem().FieldByName("Type").Set(reflect.ValueOf(vocab.ActivityVocabularyType(n.t)))
	return p, "all-names " + n.k.Name + "[" + n.t + "]"
}

// roundTrip runs every pair on x and reports every difference against the canonical tree of x.
func roundTrip(c *Ctx, codec string, mode vmodel.Mode, pairs []codecPair, x any, label string, onBytes func(pair string, x any, b []byte)) {
	want := vmodel.Canon(x, mode)
	fp := vmodel.Fingerprint(want)
	nontrivial := want != nil && len(want.Props) > 2
	c.Distinct(codec+"|"+fp, nontrivial)
	if c.WantSample() {
		c.Sample(map[string]any{"case": label, "value": clipS(want.String(), 400)})
	}
	for _, p := range pairs {
		c.Pending(codec + "-" + p.name + " " + label)
		var b []byte
		var err error
		var got any
		panicked := c.Guard(codec+"."+p.name+".encode", func() { b, err = p.enc(x) })
		c.Eval(1)
		if panicked {
			continue
		}
		if err != nil {
			c.Fail(fmt.Sprintf("%s|encode-error|%s", codec, kindOf(x)), fmt.Sprintf("%s %s encode of %s returned error: %v", codec, p.name, label, err),
				map[string]any{"pair": p.name, "case": label, "error": err.Error()})
			continue
		}
		if onBytes != nil {
			onBytes(p.name, x, b)
		}
		keepEncoded(c, codec, b, label)
		panicked = c.Guard(codec+"."+p.name+".decode", func() { got, err = p.dec(b, x) })
		c.Eval(1)
		if panicked {
			continue
		}
		if err != nil {
			c.Fail(fmt.Sprintf("%s|decode-error|%s", codec, kindOf(x)), fmt.Sprintf("%s %s decode of own encoding of %s returned error: %v", codec, p.name, label, err),
				map[string]any{"pair": p.name, "case": label, "error": err.Error(), "bytes": clipB(b)})
			continue
		}
		gotN := vmodel.Canon(got, mode)
		c.Count("roundtrips", 1)
		keepDecoded(c, codec, mode, got, label)
		for _, d := range vmodel.Diff(want, gotN) {
			c.Fail(codec+"|"+d.Sig(), fmt.Sprintf("%s round trip: %s %s (want %s, got %s)", codec, d.Path, d.Kind, d.WantShape, d.GotShape),
				map[string]any{"pair": p.name, "case": label, "path": d.Path, "want": d.Want, "got": d.Got, "bytes": clipB(b)})
		}
	}
}

func kindOf(x any) string {
	t := reflect.TypeOf(x)
	if t == nil {
		return "nil"
	}
	if t.Kind() == reflect.Pointer {
		t = t.Elem()
	}
	return t.Name()
}

func clipS(s string, n int) string {
	if len(s) > n {
		return s[:n] + "…"
	}
	return s
}

func clipB(b []byte) string {
	if json.Valid(b) || isPrintable(b) {
		return clipS(string(b), 600)
	}
	return fmt.Sprintf("%q", clipS(string(b), 300))
}

func isPrintable(b []byte) bool {
	for _, c := range b {
		if c < 0x20 && c != '\n' && c != '\t' || c == 0x7f {
			return false
		}
	}
	return true
}

// ---- layers shared by C01/C02/C03/C05 ----

// passThroughHooks installs hooks that do exactly what the defaults do; a correct library cannot tell the difference.
func passThroughHooks() (restore func()) {
	ot, ou, oe := vocab.ItemTyperFunc, vocab.JSONItemUnmarshal, vocab.IsNotEmpty
	vocab.ItemTyperFunc = func(t vocab.ActivityVocabularyType) (vocab.Item, error) { return vocab.GetItemByType(t) }
	vocab.JSONItemUnmarshal = func(t vocab.ActivityVocabularyType, _ *fastjson.Value, _ vocab.Item) error {
		return fmt.Errorf("unable to unmarshal custom type %s", t)
	}
	vocab.IsNotEmpty = func(it vocab.Item) bool { return vocab.NotEmpty(it) }
	return func() { vocab.ItemTyperFunc, vocab.JSONItemUnmarshal, vocab.IsNotEmpty = ot, ou, oe }
}

// singleVariants: the same value reached in other ways - in value (non pointer) form, with pass-through hooks installed,
// as the object of an activity and as a member of a collection's item list (the generic item path instead of the typed entry point).
func singleVariants(c *Ctx, codec string, mode vmodel.Mode, pairs []codecPair, x any, label string, onBytes func(pair string, x any, b []byte)) {
	roundTrip(c, codec, mode, pairs, x, label, onBytes)
	it, isItem := x.(vocab.Item)
	if !isItem {
		return
	}
	if _, isLink := x.(*vocab.Link); !isLink {
		roundTrip(c, codec, mode, pairs, reflect.ValueOf(x).Elem().Interface(), label+" (value form)", onBytes)
		c.Count("variant:value-form", 1)
	}
	func() {
		defer passThroughHooks()()
		roundTrip(c, codec, mode, pairs, x, label+" (pass-through hooks)", onBytes)
		c.Count("variant:hooks", 1)
	}()
	host := vocab.IRI("https://example.com/outer/" + fmt.Sprint(len(label)))
	roundTrip(c, codec, mode, pairs, &vocab.Activity{ID: host, Type: vocab.LikeType, Object: it}, label+" (as activity.object)", onBytes)
	roundTrip(c, codec, mode, pairs, &vocab.OrderedCollection{ID: host, Type: vocab.OrderedCollectionType, TotalItems: 2,
		OrderedItems: vocab.ItemCollection{vocab.IRI("https://example.com/outer/first"), it}}, label+" (as collection member)", onBytes)
	c.Count("variant:nested", 2)
}

var (
	singleJSON  = vmodel.SingleCases(false)
	singleExact = vmodel.SingleCases(true)
	pairCases   = vmodel.PairCases()
	bareCases   = vmodel.BareCases()
)

func caseGen(c *Ctx, exhaustive bool, idx int) *vmodel.Gen {
	r := c.R
	if exhaustive {
		r = rand.New(rand.NewSource(int64(idx)*7919 + 17)) // seed independent
	}
	return vmodel.NewGen(r)
}

func randomValue(g *vmodel.Gen, maxDepth int) (any, string) {
	k := vmodel.Kinds[g.R.Intn(len(vmodel.Kinds))]
	g.PSet = []float64{0.1, 0.25, 0.6}[g.R.Intn(3)]
	depth := g.R.Intn(maxDepth + 1)
	p := g.Struct(k, depth, false)
	form := "ptr"
	if g.R.Intn(6) == 0 {
		p = reflect.ValueOf(p).Elem().Interface()
		form = "val"
	}
	return p, fmt.Sprintf("random %s %s depth<=%d p=%.2f", k.Name, form, depth, g.PSet)
}

func tierN(tier string, quick, thorough int) int {
	if tier == "thorough" {
		return thorough
	}
	return quick
}

func init() {
	Register(&Prop{
		ID: "C01",
		Rule: "cases: exhaustive kind x field x admissible shape x {id,no id} (single), kind x field pair x 2 variants (pair), then seeded random nested values; " +
			"a case is identified by the fingerprint of its canonical tree (struct kind, set terms, per-term shape, nesting to depth 3); non-trivial = at least one property beyond id and type is set",
		Layers: func(tier string) []Layer {
			return []Layer{
				{Name: "single", N: len(singleJSON), Exhaustive: true, Run: func(c *Ctx, idx int) {
					sc := singleJSON[idx]
					g := caseGen(c, true, idx)
					x := g.BuildSingle(sc)
					c.Count("field:"+sc.Kind.Name+"."+sc.Field.Term, 1)
					c.Count("shape:"+sc.Shape, 1)
					singleVariants(c, "json", vmodel.JSON, jsonPairs, x, sc.String(), nil)
				}},
				{Name: "pair", N: len(pairCases), Exhaustive: true, Run: func(c *Ctx, idx int) {
					pc := pairCases[idx]
					g := caseGen(c, true, idx)
					x := g.BuildPair(pc, false)
					roundTrip(c, "json", vmodel.JSON, jsonPairs, x, pc.String(), nil)
				}},
				{Name: "all-names", N: 61 * 4, Exhaustive: true, Run: func(c *Ctx, idx int) {
					x, label := allNamesValue(caseGen(c, true, idx), idx)
					roundTrip(c, "json", vmodel.JSON, jsonPairs, x, label, nil)
				}},
				{Name: "constructed", N: len(allConstructed), Exhaustive: true, Run: func(c *Ctx, idx int) {
					cv := allConstructed[idx]
					c.Count("constructed", 1)
					singleVariants(c, "json", vmodel.JSON, jsonPairs, cv.Make(), "constructed "+cv.Label, nil)
				}},
				{Name: "bare-embedded", N: len(bareCases), Exhaustive: true, Run: func(c *Ctx, idx int) {
					bc := bareCases[idx]
					inner, host := caseGen(c, true, idx).BuildBare(bc, false)
					c.Count("bare-embedded", 1)
					roundTrip(c, "json", vmodel.JSON, jsonPairs, inner, bc.String()+" (top level)", nil)
					roundTrip(c, "json", vmodel.JSON, jsonPairs, host, bc.String()+" (as activity.object and in tag)", nil)
				}},
				{Name: "deep", N: tierN(tier, 160, 3000), Run: func(c *Ctx, idx int) {
					g := caseGen(c, false, idx)
					g.PSet = 0.12
					k := vmodel.Kinds[idx%len(vmodel.Kinds)]
					x := g.Struct(k, 5+idx%3, true)
					roundTrip(c, "json", vmodel.JSON, jsonPairs, x, fmt.Sprintf("deep %s depth<=%d", k.Name, 5+idx%3), nil)
				}},
				{Name: "random", N: tierN(tier, 20000, 80000), Run: func(c *Ctx, idx int) {
					g := caseGen(c, false, idx)
					x, label := randomValue(g, tierN(tier, 2, 3))
					c.Count("random-kind:"+kindOf(x), 1)
					roundTrip(c, "json", vmodel.JSON, jsonPairs, x, label, nil)
				}},
			}
		},
		Floors: func(tier string) map[string]int64 {
			return map[string]int64{"roundtrips": int64(tierN(tier, 30000, 200000))}
		},
		Assumptions: []string{
			"the canonical form (vmodel.Canon, reflect-based) implements exactly the normal form the property documents",
			"generated values stay inside the quantifier's domain: absolute-URL IRIs, vocabulary type names, list members with pairwise distinct ids, benign text (hostile text is C02/C06)",
		},
	})
}
