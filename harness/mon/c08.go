package mon

import (
	"fmt"
	"reflect"
	"strings"
	"time"

	vocab "github.com/go-ap/activitypub"

	"verif/harness/vmodel"
)

// C08: typed views (On*/To*) are field-faithful and never reach outside the value.

type viewHelper struct {
	Name   string
	Target string // struct kind of the view
	To     func(it vocab.Item) (any, error)
	On     func(it vocab.Item, cb func(p any)) error
}

func viewHelpers() []viewHelper {
	return []viewHelper{
		{"Object", "Object", func(it vocab.Item) (any, error) { return vocab.ToObject(it) },
			func(it vocab.Item, cb func(any)) error {
				return vocab.OnObject(it, func(p *vocab.Object) error { cb(p); return nil })
			}},
		{"Actor", "Actor", func(it vocab.Item) (any, error) { return vocab.ToActor(it) },
			func(it vocab.Item, cb func(any)) error {
				return vocab.OnActor(it, func(p *vocab.Actor) error { cb(p); return nil })
			}},
		{"Activity", "Activity", func(it vocab.Item) (any, error) { return vocab.ToActivity(it) },
			func(it vocab.Item, cb func(any)) error {
				return vocab.OnActivity(it, func(p *vocab.Activity) error { cb(p); return nil })
			}},
		{"IntransitiveActivity", "IntransitiveActivity", func(it vocab.Item) (any, error) { return vocab.ToIntransitiveActivity(it) },
			func(it vocab.Item, cb func(any)) error {
				return vocab.OnIntransitiveActivity(it, func(p *vocab.IntransitiveActivity) error { cb(p); return nil })
			}},
		{"Question", "Question", func(it vocab.Item) (any, error) { return vocab.ToQuestion(it) },
			func(it vocab.Item, cb func(any)) error {
				return vocab.OnQuestion(it, func(p *vocab.Question) error { cb(p); return nil })
			}},
		{"Collection", "Collection", func(it vocab.Item) (any, error) { return vocab.ToCollection(it) },
			func(it vocab.Item, cb func(any)) error {
				return vocab.OnCollection(it, func(p *vocab.Collection) error { cb(p); return nil })
			}},
		{"CollectionPage", "CollectionPage", func(it vocab.Item) (any, error) { return vocab.ToCollectionPage(it) },
			func(it vocab.Item, cb func(any)) error {
				return vocab.OnCollectionPage(it, func(p *vocab.CollectionPage) error { cb(p); return nil })
			}},
		{"OrderedCollection", "OrderedCollection", func(it vocab.Item) (any, error) { return vocab.ToOrderedCollection(it) },
			func(it vocab.Item, cb func(any)) error {
				return vocab.OnOrderedCollection(it, func(p *vocab.OrderedCollection) error { cb(p); return nil })
			}},
		{"OrderedCollectionPage", "OrderedCollectionPage", func(it vocab.Item) (any, error) { return vocab.ToOrderedCollectionPage(it) },
			func(it vocab.Item, cb func(any)) error {
				return vocab.OnOrderedCollectionPage(it, func(p *vocab.OrderedCollectionPage) error { cb(p); return nil })
			}},
		{"Place", "Place", func(it vocab.Item) (any, error) { return vocab.ToPlace(it) },
			func(it vocab.Item, cb func(any)) error {
				return vocab.OnPlace(it, func(p *vocab.Place) error { cb(p); return nil })
			}},
		{"Profile", "Profile", func(it vocab.Item) (any, error) { return vocab.ToProfile(it) },
			func(it vocab.Item, cb func(any)) error {
				return vocab.OnProfile(it, func(p *vocab.Profile) error { cb(p); return nil })
			}},
		{"Relationship", "Relationship", func(it vocab.Item) (any, error) { return vocab.ToRelationship(it) },
			func(it vocab.Item, cb func(any)) error {
				return vocab.OnRelationship(it, func(p *vocab.Relationship) error { cb(p); return nil })
			}},
		{"Tombstone", "Tombstone", func(it vocab.Item) (any, error) { return vocab.ToTombstone(it) },
			func(it vocab.Item, cb func(any)) error {
				return vocab.OnTombstone(it, func(p *vocab.Tombstone) error { cb(p); return nil })
			}},
		{"Link", "Link", func(it vocab.Item) (any, error) { return vocab.ToLink(it) },
			func(it vocab.Item, cb func(any)) error {
				return vocab.OnLink(it, func(p *vocab.Link) error { cb(p); return nil })
			}},
	}
}

var allViewHelpers = viewHelpers()

// reprCompatible: identical types, interfaces with the same method set, or defined types with identical underlying types.
func reprCompatible(a, b reflect.Type) bool {
	if a == b {
		return true
	}
	if a.Kind() != b.Kind() {
		return false
	}
	if a.Kind() == reflect.Interface {
		if a.NumMethod() != b.NumMethod() {
			return false
		}
		for i := 0; i < a.NumMethod(); i++ {
			if a.Method(i).Name != b.Method(i).Name || a.Method(i).Type != b.Method(i).Type {
				return false
			}
		}
		return true
	}
	return a.ConvertibleTo(b) && b.ConvertibleTo(a) && a.Size() == b.Size()
}

func hasPointers(t reflect.Type) bool {
	switch t.Kind() {
	case reflect.Bool, reflect.Int, reflect.Int8, reflect.Int16, reflect.Int32, reflect.Int64, reflect.Uint, reflect.Uint8, reflect.Uint16, reflect.Uint32, reflect.Uint64, reflect.Uintptr,
		reflect.Float32, reflect.Float64, reflect.Complex64, reflect.Complex128:
		return false
	case reflect.Array:
		return t.Len() > 0 && hasPointers(t.Elem())
	case reflect.Struct:
		for i := 0; i < t.NumField(); i++ {
			if hasPointers(t.Field(i).Type) {
				return true
			}
		}
		return false
	}
	return true
}

// fieldPair: a field of the view type and the field of the source type that occupies the same bytes.
type fieldPair struct{ T, S int }

// sizedFields lists the fields that occupy memory (zero-size fields - markers such as [0]func(), struct{} - take none and are
// not properties), in offset order.
func sizedFields(t reflect.Type) []int {
	var out []int
	for i := 0; i < t.NumField(); i++ {
		if t.Field(i).Type.Size() > 0 {
			out = append(out, i)
		}
	}
	return out
}

// alignedFields pairs the memory-occupying fields of T with those of S, in order. ok=false if T has more of them.
func alignedFields(s, t reflect.Type) (pairs []fieldPair, ok bool) {
	sf, tf := sizedFields(s), sizedFields(t)
	if len(tf) > len(sf) {
		return nil, false
	}
	for k := range tf {
		pairs = append(pairs, fieldPair{T: tf[k], S: sf[k]})
	}
	return pairs, true
}

// layoutIssue says why S cannot be viewed as T ("" = field faithful and inside the value). Fields are matched by the memory they
// occupy, not by their index in the declaration: zero-size fields may come and go on either side.
func layoutIssue(s, t reflect.Type) (class, detail string) {
	if t.Size() > s.Size() {
		return "wider-than-source", fmt.Sprintf("%s is %d bytes, the source %s only %d", t.Name(), t.Size(), s.Name(), s.Size())
	}
	pairs, ok := alignedFields(s, t)
	if !ok {
		return "more-fields-than-source", fmt.Sprintf("%s has %d fields that occupy memory, %s %d", t.Name(), len(sizedFields(t)), s.Name(), len(sizedFields(s)))
	}
	for _, p := range pairs {
		tf, sf := t.Field(p.T), s.Field(p.S)
		if !sf.IsExported() || !tf.IsExported() {
			// padding / private bookkeeping on either side: not a shared property; what matters is that the words line up
			// and that no pointer-bearing field is laid over pointer-free memory or the reverse
			if tf.Offset != sf.Offset || tf.Type.Size() != sf.Type.Size() || hasPointers(tf.Type) != hasPointers(sf.Type) {
				return "padding-mismatch", fmt.Sprintf("%s.%s (%s, offset %d) over %s.%s (%s, offset %d)", t.Name(), tf.Name, tf.Type, tf.Offset, s.Name(), sf.Name, sf.Type, sf.Offset)
			}
			continue
		}
		if tf.Offset != sf.Offset {
			return "field-offset-differs", fmt.Sprintf("%s.%s at %d, %s.%s at %d", t.Name(), tf.Name, tf.Offset, s.Name(), sf.Name, sf.Offset)
		}
		same := tf.Name == sf.Name || (tf.Name == "Items" && sf.Name == "OrderedItems") || (tf.Name == "OrderedItems" && sf.Name == "Items")
		if !same {
			return "field-name-differs", fmt.Sprintf("offset %d: %s.%s vs %s.%s", tf.Offset, t.Name(), tf.Name, s.Name(), sf.Name)
		}
		if !reprCompatible(tf.Type, sf.Type) {
			return "field-type-differs", fmt.Sprintf("offset %d (%s): %s vs %s", tf.Offset, tf.Name, tf.Type, sf.Type)
		}
	}
	return "", ""
}

type viewCase struct {
	Helper viewHelper
	Via    string // To | On
	Src    vmodel.StructKind
	Form   string // ptr | val
	Dense  bool
	Type   string // "" = a type name of the source kind; otherwise a name the vocabulary gives to another family
}

func (vc viewCase) String() string {
	d := "sparse"
	if vc.Dense {
		d = "dense"
	}
	if vc.Type != "" {
		d += ", typed " + vc.Type
	}
	return fmt.Sprintf("%s%s(%s %s, %s)", vc.Via, vc.Helper.Name, vc.Form, vc.Src.Name, d)
}

func viewCases() []viewCase {
	var out []viewCase
	for _, h := range allViewHelpers {
		for _, via := range []string{"To", "On"} {
			for _, k := range vmodel.Kinds {
				for _, form := range []string{"ptr", "val"} {
					for _, dense := range []bool{true, false} {
						out = append(out, viewCase{Helper: h, Via: via, Src: k, Form: form, Dense: dense})
					}
					// the same source carrying a type name of another family: helpers that dispatch on the name must still look at the struct
					for _, other := range vmodel.Kinds {
						if other.Name != k.Name {
							out = append(out, viewCase{Helper: h, Via: via, Src: k, Form: form, Dense: true, Type: other.SpecificType()})
						}
					}
				}
			}
		}
	}
	return out
}

var allViewCases = viewCases()

func buildViewSource(vc viewCase, idx int) any {
	g := vmodel.NewGen(newRand(int64(idx)*13 + 7))
	g.Exact = true
	g.Spare = idx%2 == 1 // every other source: lists and texts with spare capacity holding sentinels (a view must not show them)
	if vc.Dense {
		g.PSet = 0.95
		p := g.Struct(vc.Src, 1, true)
		if vc.Type != "" {
			reflect.ValueOf(p).Elem().FieldByName("Type").Set(reflect.ValueOf(vocab.ActivityVocabularyType(vc.Type)))
		}
		return p
	}
	p := vc.Src.New()
	v := reflect.ValueOf(p).Elem()
	v.FieldByName("ID").Set(reflect.ValueOf(g.IRI()))
	v.FieldByName("Type").Set(reflect.ValueOf(vocab.ActivityVocabularyType(vc.Src.SpecificType())))
	v.FieldByName("Name").Set(reflect.ValueOf(g.NLVShape("nlv1u")))
	return p
}

func runView(c *Ctx, vc viewCase, idx int) {
	src := buildViewSource(vc, idx)
	srcPtr := reflect.ValueOf(src)
	var item vocab.Item = src.(vocab.Item)
	if vc.Form == "val" {
		item = srcPtr.Elem().Interface().(vocab.Item)
	}
	label := vc.String()
	var view any
	var err error
	invoked := false
	c.Pending(fmt.Sprintf("convert %s%s(%s) :: %s", vc.Via, vc.Helper.Name, vc.Src.Name, label))
	if c.Guard(vc.Via+vc.Helper.Name, func() {
		if vc.Via == "To" {
			view, err = vc.Helper.To(item)
			invoked = err == nil
		} else {
			err = vc.Helper.On(item, func(p any) { view = p; invoked = true })
		}
	}) {
		return
	}
	c.Eval(1)
	c.Count("conversions", 1)
	if err != nil || !invoked {
		c.Count("refused", 1)
		return
	}
	vv := reflect.ValueOf(view)
	if !vv.IsValid() || vv.Kind() != reflect.Pointer || vv.IsNil() {
		c.Count("nil-view", 1)
		return
	}
	c.Count("accepted", 1)
	sT, tT := srcPtr.Elem().Type(), vv.Elem().Type()
	pair := sT.Name() + "->" + tT.Name()
	if sT == tT {
		c.Count("same-type", 1)
	} else {
		c.Count("reinterpreted:"+pair, 1)
	}
	// monitor 1: layout
	cls, detail := layoutIssue(sT, tT)
	if cls != "" {
		c.Fail(fmt.Sprintf("view|%s%s|%s|layout|%s", vc.Via, vc.Helper.Name, pair, cls),
			fmt.Sprintf("%s presents a %s as a %s although the layouts are not compatible: %s (the conversion should have been refused)", label, sT.Name(), tT.Name(), detail),
			map[string]any{"case": label, "detail": detail})
	}
	// monitor 3 (meaningful on the sanitizer builds): a full read and a full struct copy through the view
	c.Pending(fmt.Sprintf("read-through-view %s%s(%s) :: %s", vc.Via, vc.Helper.Name, vc.Src.Name, label))
	if cls == "" || c.Build != "plain" {
		var cp reflect.Value
		c.Guard("read-through-view "+pair, func() {
			cp = reflect.New(tT).Elem()
			cp.Set(vv.Elem())
			_ = vmodel.Canon(view, vmodel.Exact)
		})
		c.Count("full-reads", 1)
	}
	if cls != "" {
		return // reading or writing fields beyond the source through the view is exactly what must not happen
	}
	// monitor 2: behaviour on the shared fields
	srcV := srcPtr.Elem()
	if vc.Form == "val" {
		// the view is of a copy: compare with the item that was passed
		srcV = reflect.ValueOf(item)
	}
	pairs, _ := alignedFields(srcV.Type(), tT)
	for _, p := range pairs {
		if !tT.Field(p.T).IsExported() || !srcV.Type().Field(p.S).IsExported() {
			continue // not a property the two types share
		}
		want := vmodel.Canon(srcV.Field(p.S).Interface(), vmodel.Exact)
		got := vmodel.Canon(vv.Elem().Field(p.T).Interface(), vmodel.Exact)
		if !want.Equal(got) {
			c.Fail(fmt.Sprintf("view|%s%s|%s|read|%s", vc.Via, vc.Helper.Name, pair, tT.Field(p.T).Name),
				fmt.Sprintf("%s: field %s reads %s through the view, the original holds %s", label, tT.Field(p.T).Name, clipS(got.String(), 120), clipS(want.String(), 120)), map[string]any{"case": label})
		}
	}
	c.Count("field-reads", int64(tT.NumField()))
	if vc.Form != "ptr" {
		return
	}
	if vv.Pointer() != srcPtr.Pointer() {
		c.Fail(fmt.Sprintf("view|%s%s|%s|not-a-view", vc.Via, vc.Helper.Name, pair), fmt.Sprintf("%s of a pointer returned a pointer to different memory: writes through it cannot reach the original", label), map[string]any{"case": label})
		return
	}
	// write-through in both directions, field by field
	g := vmodel.NewGen(newRand(int64(idx) + 5000))
	g.Exact = true
	for _, p := range pairs {
		i, si := p.T, p.S
		f := tT.Field(i)
		if f.Name == "ID" || f.Name == "Type" || !f.IsExported() || !srcPtr.Elem().Type().Field(si).IsExported() {
			continue
		}
		sh := firstShape(f.Type)
		// through the view
		g.SetShape(vv.Elem().Field(i), f.Type, sh)
		a, b := vmodel.Canon(vv.Elem().Field(i).Interface(), vmodel.Exact), vmodel.Canon(srcPtr.Elem().Field(si).Interface(), vmodel.Exact)
		if !a.Equal(b) {
			c.Fail(fmt.Sprintf("view|%s%s|%s|write-through-view|%s", vc.Via, vc.Helper.Name, pair, f.Name), fmt.Sprintf("%s: a write to %s through the view is not seen by the original", label, f.Name), map[string]any{"case": label})
		}
		// through the original
		g.SetShape(srcPtr.Elem().Field(si), srcPtr.Elem().Type().Field(si).Type, sh)
		a, b = vmodel.Canon(vv.Elem().Field(i).Interface(), vmodel.Exact), vmodel.Canon(srcPtr.Elem().Field(si).Interface(), vmodel.Exact)
		if !a.Equal(b) {
			c.Fail(fmt.Sprintf("view|%s%s|%s|write-through-original|%s", vc.Via, vc.Helper.Name, pair, f.Name), fmt.Sprintf("%s: a write to %s on the original is not seen through the view", label, f.Name), map[string]any{"case": label})
		}
	}
	c.Count("write-throughs", int64(tT.NumField()))
}

// item types defined outside the package with the layout of a vocabulary struct (what an application does to add methods):
// the helpers fall back to reflection for them. Two families, so that each order of calls meets a type the process has not seen.
type (
	foreignNoteA  vocab.Object
	foreignNoteB  vocab.Object
	foreignActorA vocab.Actor
	foreignActorB vocab.Actor
	foreignColA   vocab.OrderedCollection
	foreignColB   vocab.OrderedCollection
)

func (f foreignNoteA) GetID() vocab.ID                        { return f.ID }
func (f foreignNoteA) GetLink() vocab.IRI                     { return f.ID }
func (f foreignNoteA) GetType() vocab.ActivityVocabularyType  { return f.Type }
func (f foreignNoteA) IsLink() bool                           { return false }
func (f foreignNoteA) IsObject() bool                         { return true }
func (f foreignNoteA) IsCollection() bool                     { return false }
func (f foreignNoteB) GetID() vocab.ID                        { return f.ID }
func (f foreignNoteB) GetLink() vocab.IRI                     { return f.ID }
func (f foreignNoteB) GetType() vocab.ActivityVocabularyType  { return f.Type }
func (f foreignNoteB) IsLink() bool                           { return false }
func (f foreignNoteB) IsObject() bool                         { return true }
func (f foreignNoteB) IsCollection() bool                     { return false }
func (f foreignActorA) GetID() vocab.ID                       { return f.ID }
func (f foreignActorA) GetLink() vocab.IRI                    { return f.ID }
func (f foreignActorA) GetType() vocab.ActivityVocabularyType { return f.Type }
func (f foreignActorA) IsLink() bool                          { return false }
func (f foreignActorA) IsObject() bool                        { return true }
func (f foreignActorA) IsCollection() bool                    { return false }
func (f foreignActorB) GetID() vocab.ID                       { return f.ID }
func (f foreignActorB) GetLink() vocab.IRI                    { return f.ID }
func (f foreignActorB) GetType() vocab.ActivityVocabularyType { return f.Type }
func (f foreignActorB) IsLink() bool                          { return false }
func (f foreignActorB) IsObject() bool                        { return true }
func (f foreignActorB) IsCollection() bool                    { return false }
func (f foreignColA) GetID() vocab.ID                         { return f.ID }
func (f foreignColA) GetLink() vocab.IRI                      { return f.ID }
func (f foreignColA) GetType() vocab.ActivityVocabularyType   { return f.Type }
func (f foreignColA) IsLink() bool                            { return false }
func (f foreignColA) IsObject() bool                          { return true }
func (f foreignColA) IsCollection() bool                      { return true }
func (f foreignColB) GetID() vocab.ID                         { return f.ID }
func (f foreignColB) GetLink() vocab.IRI                      { return f.ID }
func (f foreignColB) GetType() vocab.ActivityVocabularyType   { return f.Type }
func (f foreignColB) IsLink() bool                            { return false }
func (f foreignColB) IsObject() bool                          { return true }
func (f foreignColB) IsCollection() bool                      { return true }

type foreignCase struct {
	Name    string
	New     func() any // pointer to a populated value
	Reverse bool       // helpers tried last-to-first
}

var foreignCases = []foreignCase{
	{"foreignNote (an Object)", func() any {
		return &foreignNoteA{ID: "https://example.com/foreign/1", Type: vocab.NoteType, Name: vocab.NaturalLanguageValues{{Ref: vocab.NilLangRef, Value: vocab.Content("foreign")}}, Published: time.Date(2020, 1, 2, 3, 4, 5, 0, time.UTC)}
	}, false},
	{"foreignNote (an Object)", func() any {
		return &foreignNoteB{ID: "https://example.com/foreign/1", Type: vocab.NoteType, Name: vocab.NaturalLanguageValues{{Ref: vocab.NilLangRef, Value: vocab.Content("foreign")}}, Published: time.Date(2020, 1, 2, 3, 4, 5, 0, time.UTC)}
	}, true},
	{"foreignActor (an Actor)", func() any {
		return &foreignActorA{ID: "https://example.com/foreign/2", Type: vocab.PersonType, Inbox: vocab.IRI("https://example.com/foreign/2/inbox"), PreferredUsername: vocab.NaturalLanguageValues{{Ref: vocab.NilLangRef, Value: vocab.Content("bot")}}}
	}, false},
	{"foreignActor (an Actor)", func() any {
		return &foreignActorB{ID: "https://example.com/foreign/2", Type: vocab.PersonType, Inbox: vocab.IRI("https://example.com/foreign/2/inbox"), PreferredUsername: vocab.NaturalLanguageValues{{Ref: vocab.NilLangRef, Value: vocab.Content("bot")}}}
	}, true},
	{"foreignCol (an OrderedCollection)", func() any {
		return &foreignColA{ID: "https://example.com/foreign/3", Type: vocab.OrderedCollectionType, TotalItems: 1, OrderedItems: vocab.ItemCollection{vocab.IRI("https://example.com/foreign/3/1")}}
	}, false},
	{"foreignCol (an OrderedCollection)", func() any {
		return &foreignColB{ID: "https://example.com/foreign/3", Type: vocab.OrderedCollectionType, TotalItems: 1, OrderedItems: vocab.ItemCollection{vocab.IRI("https://example.com/foreign/3/1")}}
	}, true},
}

// runForeign: every helper, in the given order, three rounds, on pointer and value forms of a foreign type. A helper may refuse;
// what it hands out must be laid out like (a prefix of) the source and read the same on the fields the two declare.
func runForeign(c *Ctx, fc foreignCase) {
	helpers := append([]viewHelper{}, allViewHelpers...)
	if fc.Reverse {
		for i, j := 0, len(helpers)-1; i < j; i, j = i+1, j-1 {
			helpers[i], helpers[j] = helpers[j], helpers[i]
		}
	}
	for round := 0; round < 3; round++ {
		for _, h := range helpers {
			for _, form := range []string{"ptr", "val"} {
				for _, via := range []string{"To", "On"} {
					src := fc.New()
					srcPtr := reflect.ValueOf(src)
					item := src.(vocab.Item)
					if form == "val" {
						item = srcPtr.Elem().Interface().(vocab.Item)
					}
					label := fmt.Sprintf("%s%s(%s %s), round %d, helpers %s", via, h.Name, form, fc.Name, round, map[bool]string{false: "first to last", true: "last to first"}[fc.Reverse])
					var view any
					var err error
					invoked := false
					c.Pending("convert " + via + h.Name + "(foreign) :: " + label)
					if c.Guard(via+h.Name, func() {
						if via == "To" {
							view, err = h.To(item)
							invoked = err == nil
						} else {
							err = h.On(item, func(p any) { view = p; invoked = true })
						}
					}) {
						continue
					}
					c.Eval(1)
					c.Count("foreign-conversions", 1)
					if err != nil || !invoked {
						c.Count("foreign-refused", 1)
						continue
					}
					vv := reflect.ValueOf(view)
					if !vv.IsValid() || vv.Kind() != reflect.Pointer || vv.IsNil() {
						continue
					}
					c.Count("foreign-accepted", 1)
					sT, tT := srcPtr.Elem().Type(), vv.Elem().Type()
					if cls, detail := layoutIssue(sT, tT); cls != "" {
						c.Fail(fmt.Sprintf("view|%s%s|foreign->%s|layout|%s", via, h.Name, tT.Name(), cls), fmt.Sprintf("%s presents a value defined outside the package as a %s although the layouts are not compatible: %s (the conversion should have been refused)", label, tT.Name(), detail), map[string]any{"case": label})
						continue
					}
					srcV := srcPtr.Elem()
					fpairs, _ := alignedFields(sT, tT)
					for _, fp := range fpairs {
						i := fp.T
						if !tT.Field(i).IsExported() || !sT.Field(fp.S).IsExported() {
							continue
						}
						want, got := vmodel.Canon(srcV.Field(fp.S).Interface(), vmodel.Exact), vmodel.Canon(vv.Elem().Field(i).Interface(), vmodel.Exact)
						if !want.Equal(got) {
							c.Fail(fmt.Sprintf("view|%s%s|foreign->%s|read|%s", via, h.Name, tT.Name(), tT.Field(i).Name), fmt.Sprintf("%s: field %s reads %s through the view, the original holds %s", label, tT.Field(i).Name, clipS(got.String(), 120), clipS(want.String(), 120)), map[string]any{"case": label})
						}
					}
				}
			}
		}
	}
}

// member-list views: a collection presented as its list of members
type memberViewCase struct {
	Kind   string // Collection CollectionPage OrderedCollection OrderedCollectionPage
	Form   string // ptr val
	Helper string // ToItemCollection OnItemCollection OnCollectionIntf
	N      int
	Type   string // the type name the value carries: its own, or that of another collection kind (a decoder can leave a page's name on a plain collection)
}

func (m memberViewCase) String() string {
	return fmt.Sprintf("%s(%s %s typed %s, %d members)", m.Helper, m.Form, m.Kind, m.Type, m.N)
}

var memberViewCases = func() []memberViewCase {
	var out []memberViewCase
	for _, k := range []string{"Collection", "CollectionPage", "OrderedCollection", "OrderedCollectionPage"} {
		for _, f := range []string{"ptr", "val"} {
			for _, h := range []string{"ToItemCollection", "OnItemCollection", "OnCollectionIntf"} {
				for _, n := range []int{0, 1, 3} {
					for _, tn := range []string{"Collection", "CollectionPage", "OrderedCollection", "OrderedCollectionPage"} {
						out = append(out, memberViewCase{k, f, h, n, tn})
					}
				}
			}
		}
	}
	return out
}()

func runMemberView(c *Ctx, mc memberViewCase, idx int) {
	ki := vmodel.KindIndex(mc.Kind)
	src := vmodel.Kinds[ki].New()
	sv := reflect.ValueOf(src).Elem()
	sv.FieldByName("ID").Set(reflect.ValueOf(vocab.IRI(fmt.Sprintf("https://example.com/col/%d", idx))))
	sv.FieldByName("Type").Set(reflect.ValueOf(vocab.ActivityVocabularyType(mc.Type)))
	field := "Items"
	if strings.HasPrefix(mc.Kind, "Ordered") {
		field = "OrderedItems"
	}
	var members vocab.ItemCollection
	for i := 0; i < mc.N; i++ {
		if i == 1 {
			members = append(members, &vocab.Object{ID: vocab.IRI(fmt.Sprintf("https://example.com/col/%d/note", idx)), Type: vocab.NoteType})
		} else {
			members = append(members, vocab.IRI(fmt.Sprintf("https://example.com/col/%d/m%d", idx, i)))
		}
	}
	if mc.N > 0 {
		sv.FieldByName(field).Set(reflect.ValueOf(append(vocab.ItemCollection{}, members...)))
	}
	sv.FieldByName("TotalItems").SetUint(uint64(mc.N))
	own := func() vocab.ItemCollection { return sv.FieldByName(field).Interface().(vocab.ItemCollection) }
	var item vocab.Item = src.(vocab.Item)
	if mc.Form == "val" {
		item = sv.Interface().(vocab.Item)
	}
	label := mc.String()
	sig := func(what string) string { return fmt.Sprintf("view|%s|%s|members|%s", mc.Helper, mc.Kind, what) }
	same := func(a, b vocab.ItemCollection) bool {
		if len(a) != len(b) {
			return false
		}
		for i := range a {
			if a[i] != b[i] {
				return false
			}
		}
		return true
	}
	extra := vocab.IRI(fmt.Sprintf("https://example.com/col/%d/appended", idx))
	swapped := vocab.IRI(fmt.Sprintf("https://example.com/col/%d/replaced", idx))
	c.Pending("member view " + label)
	c.Guard(mc.Helper, func() {
		var view *vocab.ItemCollection
		var ci vocab.CollectionInterface
		var err error
		invoked := false
		switch mc.Helper {
		case "ToItemCollection":
			view, err = vocab.ToItemCollection(item)
			invoked = err == nil
		case "OnItemCollection":
			err = vocab.OnItemCollection(item, func(p *vocab.ItemCollection) error { view = p; invoked = true; return nil })
		default:
			err = vocab.OnCollectionIntf(item, func(p vocab.CollectionInterface) error { ci = p; invoked = true; return nil })
		}
		c.Eval(1)
		c.Count("member-views", 1)
		if err != nil || !invoked {
			c.Count("member-views-refused", 1)
			return
		}
		var listed vocab.ItemCollection
		switch {
		case ci != nil && !vocab.IsNil(ci):
			listed = ci.Collection()
			if got, want := ci.GetLink(), sv.FieldByName("ID").Interface().(vocab.IRI); got != want {
				c.Fail(sig("id"), fmt.Sprintf("%s: the view's id reads %q, the collection's is %q", label, got, want), map[string]any{"case": label})
			}
			if int(ci.Count()) != len(members) {
				c.Fail(sig("count"), fmt.Sprintf("%s: the view counts %d members, the collection holds %d", label, ci.Count(), len(members)), map[string]any{"case": label})
			}
		case view != nil:
			listed = *view
		default:
			c.Count("member-views-nil", 1)
			return
		}
		c.Count("member-views-accepted", 1)
		if !same(listed, members) {
			c.Fail(sig("read"), fmt.Sprintf("%s: the view lists %v, the collection's %s holds %v", label, listed, field, members), map[string]any{"case": label})
			return
		}
		if mc.Form != "ptr" {
			return
		}
		// writes through the view of a pointer are seen by the collection
		if ci != nil {
			_ = ci.Append(extra)
		} else {
			*view = append(*view, extra)
			if mc.N > 0 {
				(*view)[0] = swapped
			}
		}
		c.Count("member-write-throughs", 1)
		wantAfter := append(append(vocab.ItemCollection{}, members...), extra)
		if ci == nil && mc.N > 0 {
			wantAfter[0] = swapped
		}
		if got := own(); !same(got, wantAfter) {
			c.Fail(sig("write-through"), fmt.Sprintf("%s: after appending (and replacing the first member) through the view the collection's %s holds %v, expected %v", label, field, got, wantAfter), map[string]any{"case": label})
			return
		}
		// and the other way round
		sv.FieldByName(field).Set(reflect.ValueOf(append(own(), swapped)))
		var again vocab.ItemCollection
		if ci != nil {
			again = ci.Collection()
		} else {
			again = *view
		}
		if !same(again, own()) {
			c.Fail(sig("read-after-write"), fmt.Sprintf("%s: after the collection's %s was extended the view lists %v, the collection holds %v", label, field, again, own()), map[string]any{"case": label})
		}
	})
}

func init() {
	Register(&Prop{
		ID: "C08",
		Rule: fmt.Sprintf("every To<T>/On<T> helper (%d) x every source kind (14) x {pointer, value} x {densely populated, sparse, typed with a name of each other family} = %d conversions, enumerated completely; whenever a conversion is accepted and the source kind differs from T: (1) layout rule by reflection: sizeof(T) <= sizeof(S) and every field of T sits at the same offset in S with the same name (Items/OrderedItems excepted) and a representation-compatible type, otherwise it should have been refused; (2) every shared field reads through the view as on the original, and for pointer inputs a write through the view is seen by the original and vice versa; (3) a full read and struct copy through the view on the checkptr build (and ASan in thorough), aborts attributed through the write-ahead record; (4) the member-list views (ToItemCollection, OnItemCollection, OnCollectionIntf) of the four collection kinds x the four collection type names x {pointer, value} x {no, one, three members}: what the view lists is what the collection's own member property holds, in order, and for pointer inputs appending and replacing through the view is seen by the collection and the other way round; distinct = conversion; non-trivial = accepted conversions between different kinds",
			len(allViewHelpers), len(allViewCases)),
		Builds: func(tier string) []string {
			if tier == "thorough" {
				return []string{"plain", "ckptr", "asan", "cover"}
			}
			return []string{"plain", "ckptr"}
		},
		Layers: func(tier string) []Layer {
			return []Layer{
				{Name: "conversions", N: len(allViewCases), Exhaustive: true, Run: func(c *Ctx, idx int) {
					vc := allViewCases[idx]
					c.Distinct(vc.String(), vc.Src.Name != vc.Helper.Target)
					if idx%397 == 0 {
						c.Sample(map[string]any{"conversion": vc.String()})
					}
					runView(c, vc, idx)
				}},
				{Name: "member-list-views", N: len(memberViewCases), Exhaustive: true, Run: func(c *Ctx, idx int) {
					mc := memberViewCases[idx]
					c.Distinct("members|"+mc.String(), true)
					runMemberView(c, mc, idx)
				}},
				{Name: "foreign-types", N: len(foreignCases), Exhaustive: true, Run: func(c *Ctx, idx int) {
					fc := foreignCases[idx]
					c.Distinct(fmt.Sprintf("foreign|%s|reverse=%v", fc.Name, fc.Reverse), true)
					runForeign(c, fc)
				}},
			}
		},
		Floors: func(tier string) map[string]int64 {
			return map[string]int64{"conversions": int64(len(allViewCases)), "accepted": 200, "field-reads": 5000, "write-throughs": 2000, "member-views-accepted": 20, "member-write-throughs": 20}
		},
		Assumptions: []string{
			"the list of To*/On* helpers is maintained by hand (14 families); in thorough the cover build reports which unsafe.Pointer conversion sites of the source executed",
			"representation-compatible = identical type, interfaces with the same method set, or defined types with identical underlying type",
		},
	})
}

var _ = strings.Join
