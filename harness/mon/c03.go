package mon

import (
	"fmt"
	"reflect"
	"strings"

	vocab "github.com/go-ap/activitypub"

	"verif/harness/vmodel"
)

var gobPairs = []codecPair{
	{"pkg", func(x any) ([]byte, error) { return vocab.GobEncode(x.(vocab.Item)) },
		func(b []byte, _ any) (any, error) { it, err := vocab.GobDecode(b); return it, err }},
	{"method", func(x any) ([]byte, error) { return callMarshal(x, "GobEncode") },
		func(b []byte, like any) (any, error) { return callUnmarshal(like, "GobDecode", b) }},
	{"binary", func(x any) ([]byte, error) { return callMarshal(x, "MarshalBinary") },
		func(b []byte, like any) (any, error) { return callUnmarshal(like, "UnmarshalBinary", b) }},
}

func exactGen(c *Ctx, exhaustive bool, idx int) *vmodel.Gen {
	g := caseGen(c, exhaustive, idx)
	g.Exact = true
	return g
}

func init() {
	Register(&Prop{
		ID: "C03",
		Rule: "cases: exhaustive kind x field x admissible shape x {id,no id} with nanosecond/zoned instants and negative numbers, field pairs, top-level item lists and IRI lists, then seeded random nested values; " +
			"three encode/decode pairs per case (package GobEncode/GobDecode, method GobEncode/GobDecode, MarshalBinary/UnmarshalBinary); a case is identified by the fingerprint of its canonical tree; non-trivial = a property beyond id and type is set",
		Layers: func(tier string) []Layer {
			return []Layer{
				{Name: "single", N: len(singleExact), Exhaustive: true, Run: func(c *Ctx, idx int) {
					sc := singleExact[idx]
					g := exactGen(c, true, idx)
					x := g.BuildSingle(sc)
					c.Count("field:"+sc.Kind.Name+"."+sc.Field.Term, 1)
					c.Count("shape:"+sc.Shape, 1)
					singleVariants(c, "gob", vmodel.Exact, gobPairs, x, sc.String(), nil)
				}},
				{Name: "pair", N: len(pairCases), Exhaustive: true, Run: func(c *Ctx, idx int) {
					pc := pairCases[idx]
					g := exactGen(c, true, idx)
					x := g.BuildPair(pc, true)
					roundTrip(c, "gob", vmodel.Exact, gobPairs, x, pc.String(), nil)
				}},
				{Name: "toplist", N: 2 * len(vmodel.ItemShapes(true)), Exhaustive: true, Run: func(c *Ctx, idx int) {
					g := exactGen(c, true, idx)
					shapes := vmodel.ItemShapes(true)
					sh := shapes[idx/2]
					var x vocab.Item
					label := ""
					if idx%2 == 0 {
						x = vocab.ItemCollection{g.ItemShape(sh), g.IRI(), g.ItemShape("obj:Actor")}
						label = "top-level ItemCollection[" + sh + ", iri, obj:Actor]"
					} else if sh == "iri" {
						x = vocab.IRIs{g.IRI(), g.IRI(), g.IRI()}
						label = "top-level IRIs[3]"
					} else {
						x = g.ItemShape(sh)
						label = "top-level " + sh
					}
					c.Count("toplevel", 1)
					// only the package level pair exists for item lists
					pairs := gobPairs[:1]
					if idx%2 == 1 && sh != "iri" {
						pairs = gobPairs
					}
					roundTrip(c, "gob", vmodel.Exact, pairs, x, label, nil)
				}},
				{Name: "all-names", N: 61 * 4, Exhaustive: true, Run: func(c *Ctx, idx int) {
					x, label := allNamesValue(exactGen(c, true, idx), idx)
					roundTrip(c, "gob", vmodel.Exact, gobPairs, x, label, nil)
				}},
				{Name: "constructed", N: len(allConstructed), Exhaustive: true, Run: func(c *Ctx, idx int) {
					cv := allConstructed[idx]
					c.Count("constructed", 1)
					singleVariants(c, "gob", vmodel.Exact, gobPairs, cv.Make(), "constructed "+cv.Label, nil)
				}},
				{Name: "bare-embedded", N: len(bareCases), Exhaustive: true, Run: func(c *Ctx, idx int) {
					bc := bareCases[idx]
					inner, host := exactGen(c, true, idx).BuildBare(bc, true)
					c.Count("bare-embedded", 1)
					roundTrip(c, "gob", vmodel.Exact, gobPairs, inner, bc.String()+" (top level)", nil)
					roundTrip(c, "gob", vmodel.Exact, gobPairs, host, bc.String()+" (as activity.object and in tag)", nil)
				}},
				{Name: "near-equal-ids", N: len(vmodel.Kinds) * 6, Exhaustive: true, Run: func(c *Ctx, idx int) {
					// members whose ids are distinct strings that the library's IRI equivalence treats alike (scheme, letter case,
					// fragment, trailing slash); gob stores lists as they are, so all of them come back
					g := exactGen(c, true, idx)
					base := string(g.IRI())
					up := "https://EXAMPLE.com" + base[strings.Index(base[8:], "/")+8:]
					ids := []vocab.IRI{vocab.IRI(base), vocab.IRI("http" + base[5:]), vocab.IRI(base + "#frag"), vocab.IRI(base + "/"), vocab.IRI(up)}
					lst := vocab.ItemCollection{}
					for i, id := range ids {
						switch (i + idx) % 3 {
						case 0:
							lst = append(lst, id)
						case 1:
							lst = append(lst, &vocab.Object{ID: id, Type: vocab.NoteType})
						default:
							lst = append(lst, &vocab.Actor{ID: id, Type: vocab.PersonType, Name: g.NLVShape("nlv1u")})
						}
					}
					k := vmodel.Kinds[idx%len(vmodel.Kinds)]
					var x vocab.Item
					switch idx / len(vmodel.Kinds) {
					case 0:
						x = lst
					case 1:
						x = &vocab.OrderedCollection{ID: g.IRI(), Type: vocab.OrderedCollectionType, OrderedItems: lst}
					case 2:
						x = &vocab.Collection{ID: g.IRI(), Type: vocab.CollectionType, Items: lst}
					default:
						p := k.New()
						f := []string{"To", "Tag", "CC"}[idx/len(vmodel.Kinds)-3]
						fv := reflect.ValueOf(p).Elem().FieldByName(f)
						if !fv.IsValid() {
							return
						}
						reflect.ValueOf(p).Elem().FieldByName("ID").Set(reflect.ValueOf(g.IRI()))
						reflect.ValueOf(p).Elem().FieldByName("Type").Set(reflect.ValueOf(vocab.ActivityVocabularyType(k.SpecificType())))
						fv.Set(reflect.ValueOf(lst))
						x = p.(vocab.Item)
					}
					c.Count("near-equal-id-lists", 1)
					pairs := gobPairs
					if _, isList := x.(vocab.ItemCollection); isList {
						pairs = gobPairs[:1]
					}
					roundTrip(c, "gob", vmodel.Exact, pairs, x, fmt.Sprintf("near-equal ids in %T", x), nil)
				}},
				{Name: "deep", N: tierN(tier, 120, 2000), Run: func(c *Ctx, idx int) {
					g := exactGen(c, false, idx)
					g.PSet = 0.12
					k := vmodel.Kinds[idx%len(vmodel.Kinds)]
					x := g.Struct(k, 5+idx%3, true)
					roundTrip(c, "gob", vmodel.Exact, gobPairs, x, fmt.Sprintf("deep %s depth<=%d", k.Name, 5+idx%3), nil)
				}},
				{Name: "random", N: tierN(tier, 10000, 24000), Run: func(c *Ctx, idx int) {
					g := exactGen(c, false, idx)
					x, label := randomValue(g, tierN(tier, 2, 3))
					c.Count("random-kind:"+kindOf(x), 1)
					roundTrip(c, "gob", vmodel.Exact, gobPairs, x, label, nil)
				}},
			}
		},
		Floors: func(tier string) map[string]int64 {
			return map[string]int64{"roundtrips": int64(tierN(tier, 50000, 250000))}
		},
		Assumptions: []string{
			"the canonical form in mode exact applies only the unset/empty normal form; instants are compared as UTC instants to the nanosecond",
			"generated values stay inside the quantifier's domain (C01's domain plus nanosecond and zoned instants, negative numbers and durations)",
		},
	})
}

var _ = fmt.Sprintf
