package mon

import (
	"fmt"
	"reflect"
	"strings"

	vocab "github.com/go-ap/activitypub"

	"verif/harness/vmodel"
)

// C16: flattening replaces embedded items by their own ids and nothing else.

var flatItemFields = []string{"Actor", "Object", "Target", "Result", "Origin", "Instrument", "AttributedTo", "Replies", "Likes", "Shares"}
var flatListFields = []string{"To", "Bto", "CC", "BCC", "Audience"}

// item tokens for flattened positions
var flatTokens = func() []string {
	t := []string{"noid-nested", "noidv-nested", "noid-activity", "iri", "obj", "obj-noid", "link", "link-noid", "link-untyped", "link-hashtag", "actor", "objv", "nil", "activity", "col", "list", "list1", "col1", "iris1"}
	// an embedded value of every non-collection object kind, pointer and value form
	for _, k := range vmodel.Kinds {
		if k.Fam == "collection" || k.Fam == "link" {
			continue
		}
		t = append(t, "k:"+k.Name, "kv:"+k.Name)
	}
	// ... and the same structs typed with a name of another family (a plain Object that says it is a Person or a Like, an
	// intransitive activity that says Create): what counts is that it is an embedded non-collection object with an id
	for _, k := range vmodel.Kinds {
		if k.Fam == "collection" || k.Fam == "link" {
			continue
		}
		for _, other := range []string{"Note", "Person", "Like", "Arrive", "Question"} {
			own := false
			for _, tn := range k.Types {
				own = own || tn == other
			}
			if !own {
				t = append(t, "kx:"+k.Name+":"+other)
			}
		}
	}
	for i := range oddIDs {
		t = append(t, fmt.Sprintf("oddid:%d", i))
	}
	return t
}()

// ids that are not well-formed absolute URLs: the statement says "has an id", not "has an id that parses"
var oddIDs = []string{"https://example.com/notes/100%-done", "https://example.com/%zz", "https://example.com/a\tb", "2024:notes/1", "example-actor-iri", "urn:uuid:6e8bc430-9c3a-11d9-9669-0800200c9a66",
	"acct:user@example.com", "#local", "//host/path", "https://example.com/sp ace", "HTTPS://EXAMPLE.COM/UP", "https://[::1]/v6", "https://example.com/ü", "https://example.com/a?b=%"}

func flatItem(tok string, n int) vocab.Item {
	if strings.HasPrefix(tok, "oddid:") {
		var i int
		fmt.Sscanf(tok[6:], "%d", &i)
		oid := vocab.IRI(fmt.Sprintf("%s%d", oddIDs[i], n))
		if i%2 == 0 {
			return &vocab.Object{ID: oid, Type: vocab.NoteType, Name: vocab.NaturalLanguageValues{{Ref: vocab.NilLangRef, Value: vocab.Content("odd id")}}}
		}
		return vocab.Actor{ID: oid, Type: vocab.PersonType}
	}
	id := vocab.IRI(fmt.Sprintf("https://example.com/flat/%s/%d", tok, n))
	if strings.HasPrefix(tok, "kx:") {
		parts := strings.Split(tok, ":")
		k := vmodel.Kinds[vmodel.KindIndex(parts[1])]
		p := reflect.ValueOf(k.New())
		p.Elem().FieldByName("ID").Set(reflect.ValueOf(vocab.IRI(fmt.Sprintf("https://example.com/flat/%s-as-%s/%d", k.Name, parts[2], n))))
		p.Elem().FieldByName("Type").Set(reflect.ValueOf(vocab.ActivityVocabularyType(parts[2])))
		p.Elem().FieldByName("Summary").Set(reflect.ValueOf(vocab.NaturalLanguageValues{{Ref: vocab.NilLangRef, Value: vocab.Content("embedded " + k.Name + " typed " + parts[2])}}))
		return p.Interface().(vocab.Item)
	}
	if strings.HasPrefix(tok, "k:") || strings.HasPrefix(tok, "kv:") {
		k := vmodel.Kinds[vmodel.KindIndex(tok[strings.IndexByte(tok, ':')+1:])]
		p := reflect.ValueOf(k.New())
		p.Elem().FieldByName("ID").Set(reflect.ValueOf(vocab.IRI(fmt.Sprintf("https://example.com/flat/%s/%d", k.Name, n))))
		p.Elem().FieldByName("Type").Set(reflect.ValueOf(vocab.ActivityVocabularyType(k.SpecificType())))
		p.Elem().FieldByName("Summary").Set(reflect.ValueOf(vocab.NaturalLanguageValues{{Ref: vocab.NilLangRef, Value: vocab.Content("embedded " + k.Name)}}))
		if strings.HasPrefix(tok, "kv:") {
			return p.Elem().Interface().(vocab.Item)
		}
		return p.Interface().(vocab.Item)
	}
	switch tok {
	case "iri":
		return id
	case "obj":
		return &vocab.Object{ID: id, Type: vocab.NoteType, Name: vocab.NaturalLanguageValues{{Ref: vocab.NilLangRef, Value: vocab.Content("embedded")}}}
	case "noid-nested", "noidv-nested":
		// an object without an id that itself embeds objects with ids: it stays exactly as it was, inside included
		o := vocab.Object{Type: vocab.NoteType, Name: vocab.NaturalLanguageValues{{Ref: vocab.NilLangRef, Value: vocab.Content(fmt.Sprintf("draft %d", n))}},
			AttributedTo: &vocab.Actor{ID: id + "/author", Type: vocab.PersonType}, To: vocab.ItemCollection{&vocab.Actor{ID: id + "/reader", Type: vocab.PersonType}, vocab.IRI("https://example.com/flat/other-reader")},
			Replies: &vocab.Object{ID: id + "/first-reply", Type: vocab.NoteType}}
		if tok == "noidv-nested" {
			return o
		}
		return &o
	case "noid-activity":
		return &vocab.Activity{Type: vocab.CreateType, Actor: &vocab.Actor{ID: id + "/creator", Type: vocab.PersonType}, Object: &vocab.Object{ID: id + "/created", Type: vocab.NoteType}, CC: vocab.ItemCollection{&vocab.Actor{ID: id + "/cc", Type: vocab.GroupType}}}
	case "obj-noid":
		return &vocab.Object{Type: vocab.NoteType, Name: vocab.NaturalLanguageValues{{Ref: vocab.NilLangRef, Value: vocab.Content(fmt.Sprintf("no id %d", n))}}}
	case "link":
		return &vocab.Link{ID: id, Type: vocab.MentionType, Href: "https://example.com/href"}
	case "link-noid":
		return &vocab.Link{Type: vocab.LinkType, Href: vocab.IRI(fmt.Sprintf("https://example.com/href/%d", n))}
	case "link-untyped":
		return &vocab.Link{Href: vocab.IRI(fmt.Sprintf("https://example.com/href/u%d", n)), Name: vocab.NaturalLanguageValues{{Ref: vocab.NilLangRef, Value: vocab.Content("untyped link")}}}
	case "link-hashtag":
		return &vocab.Link{ID: id, Type: "Hashtag", Href: vocab.IRI(fmt.Sprintf("https://example.com/tags/%d", n)), Name: vocab.NaturalLanguageValues{{Ref: vocab.NilLangRef, Value: vocab.Content("#tag")}}}
	case "list1":
		return vocab.ItemCollection{&vocab.Actor{ID: id, Type: vocab.PersonType}}
	case "col1":
		return &vocab.Collection{ID: id, Type: vocab.CollectionType, Items: vocab.ItemCollection{&vocab.Object{ID: id + "/only", Type: vocab.NoteType}}}
	case "iris1":
		return vocab.IRIs{id}
	case "actor":
		return &vocab.Actor{ID: id, Type: vocab.PersonType, Inbox: id + "/inbox"}
	case "objv":
		return vocab.Object{ID: id, Type: vocab.ArticleType}
	case "nil":
		return nil
	case "activity":
		return &vocab.Activity{ID: id, Type: vocab.LikeType, Object: vocab.IRI("https://example.com/flat/liked")}
	case "col":
		return &vocab.OrderedCollection{ID: id, Type: vocab.OrderedCollectionType, OrderedItems: vocab.ItemCollection{vocab.IRI("https://example.com/flat/m/1"), &vocab.Object{ID: "https://example.com/flat/m/2", Type: vocab.NoteType}}}
	case "list":
		return vocab.ItemCollection{vocab.IRI("https://example.com/flat/l/1"), &vocab.Object{ID: "https://example.com/flat/l/2", Type: vocab.NoteType}}
	}
	panic("flat token " + tok)
}

func isCollectionValued(it vocab.Item) bool {
	switch it.(type) {
	case vocab.ItemCollection, *vocab.ItemCollection, vocab.IRIs, *vocab.IRIs, *vocab.Collection, *vocab.OrderedCollection, *vocab.CollectionPage, *vocab.OrderedCollectionPage,
		vocab.Collection, vocab.OrderedCollection, vocab.CollectionPage, vocab.OrderedCollectionPage:
		return true
	}
	return false
}

func isLinkItem(it vocab.Item) bool {
	switch it.(type) {
	case *vocab.Link, vocab.Link:
		return true
	}
	return false
}

// flatModel says what a flattened position must hold: (want, exempt). exempt = collection valued.
func flatModel(it vocab.Item) (want *vmodel.Node, exempt bool) {
	if it == nil {
		return nil, false
	}
	if isCollectionValued(it) {
		return nil, true
	}
	if _, ok := it.(vocab.IRI); ok {
		return vmodel.Canon(it, vmodel.Exact), false
	}
	if isLinkItem(it) {
		return vmodel.Canon(it, vmodel.Exact), false
	}
	if id := it.GetLink(); len(id) > 0 {
		return &vmodel.Node{Kind: "iri", S: string(id)}, false
	}
	return vmodel.Canon(it, vmodel.Exact), false
}

func flatKey(n *vmodel.Node) string {
	if n == nil {
		return "<nil>"
	}
	if n.Kind == "iri" {
		k, ok := refKey(n.S, false)
		if ok {
			return "id:" + k
		}
		return "id:" + strings.ToLower(n.S)
	}
	if id, ok := n.Props["id"]; ok {
		k, ok2 := refKey(id.S, false)
		if ok2 {
			return "id:" + k
		}
	}
	return "content:" + n.String()
}

// listAccepts: got must be obtainable from model by deleting entries whose key already occurred (de-duplication), nothing else.
func listAccepts(model, got []*vmodel.Node) bool {
	seen := map[string]bool{}
	gi := 0
	for _, m := range model {
		k := flatKey(m)
		if gi < len(got) && got[gi].Equal(m) {
			gi++
			if m != nil {
				seen[k] = true
			}
			continue
		}
		if m != nil && seen[k] {
			continue // a later duplicate may be dropped
		}
		if m == nil {
			continue // a nil entry may be dropped
		}
		return false
	}
	return gi == len(got)
}

// collectIRIs gathers every id and IRI that occurs anywhere in a canonical tree.
func collectIRIs(n *vmodel.Node, out map[string]bool) {
	if n == nil {
		return
	}
	if n.Kind == "iri" {
		out[n.S] = true
	}
	for _, c := range n.Props {
		collectIRIs(c, out)
	}
	for _, c := range n.List {
		collectIRIs(c, out)
	}
}

type flatCase struct {
	Kind    vmodel.StructKind
	Type    string
	Items   map[string]vocab.Item   // flattened single positions
	Lists   map[string][]vocab.Item // flattened list positions
	Via     string                  // dispatcher | typed
	Emptied string                  // a list property set to an empty list with spare capacity that still holds a former member
}

func runFlatten(c *Ctx, fc flatCase, label string) {
	p := fc.Kind.New()
	v := reflect.ValueOf(p).Elem()
	v.FieldByName("ID").Set(reflect.ValueOf(vocab.IRI("https://example.com/flat/top")))
	v.FieldByName("Type").Set(reflect.ValueOf(vocab.ActivityVocabularyType(fc.Type)))
	// other properties that must stay exactly as they are
	v.FieldByName("Name").Set(reflect.ValueOf(vocab.NaturalLanguageValues{{Ref: vocab.NilLangRef, Value: vocab.Content("top")}}))
	v.FieldByName("Tag").Set(reflect.ValueOf(vocab.ItemCollection{&vocab.Object{ID: "https://example.com/flat/tag", Type: vocab.NoteType}}))
	v.FieldByName("Attachment").Set(reflect.ValueOf(vocab.Item(&vocab.Object{ID: "https://example.com/flat/att", Type: vocab.ImageType})))
	v.FieldByName("InReplyTo").Set(reflect.ValueOf(vocab.Item(&vocab.Object{ID: "https://example.com/flat/irt", Type: vocab.NoteType})))
	// ... including every item-valued property the kind declares beyond the flattened positions (a question's options, an actor's
	// collections, what a relationship relates, what a profile describes): an embedded object with an id, or a list of one
	{
		flatPos := map[string]bool{}
		for _, f := range flatItemFields {
			flatPos[f] = true
		}
		for _, f := range flatListFields {
			flatPos[f] = true
		}
		for i := 0; i < v.NumField(); i++ {
			sf := v.Type().Field(i)
			if !sf.IsExported() || flatPos[sf.Name] || !v.Field(i).IsZero() {
				continue
			}
			other := &vocab.Object{ID: vocab.IRI("https://example.com/flat/other/" + sf.Name), Type: vocab.NoteType}
			switch {
			case sf.Type == vmodel.IcT:
				v.Field(i).Set(reflect.ValueOf(vocab.ItemCollection{other}))
			case vmodel.IsItemType(sf.Type):
				v.Field(i).Set(reflect.ValueOf(vocab.Item(other)))
			}
		}
	}
	for f, it := range fc.Items {
		fv := v.FieldByName(f)
		if !fv.IsValid() {
			continue
		}
		if it != nil {
			fv.Set(reflect.ValueOf(it))
		}
	}
	for f, l := range fc.Lists {
		fv := v.FieldByName(f)
		if fv.IsValid() {
			if f == fc.Emptied {
				backing := vocab.ItemCollection{vocab.IRI("https://example.com/flat/former-member"), vocab.IRI("https://example.com/flat/former-member-2")}
				fv.Set(reflect.ValueOf(backing[:0]))
				continue
			}
			fv.Set(reflect.ValueOf(vocab.ItemCollection(append([]vocab.Item{}, l...))))
		}
	}
	before := vmodel.Canon(p, vmodel.Exact)
	allowed := map[string]bool{}
	collectIRIs(before, allowed)
	type want struct {
		node   *vmodel.Node
		exempt bool
	}
	wantItems := map[string]want{}
	isActivity := fc.Kind.Fam == "activity" || fc.Kind.Fam == "intransitive" || fc.Kind.Fam == "question"
	for i, f := range flatItemFields {
		fv := v.FieldByName(f)
		if !fv.IsValid() {
			continue
		}
		if i < 6 && !isActivity {
			continue // actor, object, target, result, origin, instrument are flattened on activities only
		}
		var it vocab.Item
		if !fv.IsNil() {
			it = fv.Interface().(vocab.Item)
		}
		n, ex := flatModel(it)
		wantItems[f] = want{n, ex}
	}
	wantLists := map[string][]*vmodel.Node{}
	exemptList := map[string]bool{}
	for _, f := range flatListFields {
		fv := v.FieldByName(f)
		l := fv.Interface().(vocab.ItemCollection)
		for _, it := range l {
			n, ex := flatModel(it)
			if ex {
				exemptList[f] = true
			}
			wantLists[f] = append(wantLists[f], n)
		}
	}
	call := func(x any) bool {
		c.Pending("flatten " + label)
		return c.Guard("Flatten("+fc.Via+")", func() {
			if fc.Via == "dispatcher" {
				vocab.FlattenProperties(x.(vocab.Item))
				return
			}
			switch t := x.(type) {
			case *vocab.Activity:
				vocab.FlattenActivityProperties(t)
			case *vocab.IntransitiveActivity:
				vocab.FlattenIntransitiveActivityProperties(t)
			case *vocab.Question:
				_ = vocab.OnIntransitiveActivity(t, func(i *vocab.IntransitiveActivity) error { vocab.FlattenIntransitiveActivityProperties(i); return nil })
			case *vocab.Actor:
				vocab.FlattenActorProperties(t)
			case *vocab.Object:
				vocab.FlattenObjectProperties(t)
			default:
				_ = vocab.OnObject(x.(vocab.Item), func(o *vocab.Object) error { vocab.FlattenObjectProperties(o); return nil })
			}
		})
	}
	if call(p) {
		return
	}
	c.Eval(1)
	c.Count("flattens", 1)
	c.Count("via:"+fc.Via, 1)
	after := vmodel.Canon(p, vmodel.Exact)
	fam := fc.Kind.Fam + "/" + typeClass(fc.Kind, fc.Type)
	fail := func(pos, shape, effect, what string) {
		c.Fail(fmt.Sprintf("flat|%s|%s|%s|%s|%s", fc.Via, fam, pos, shape, effect), fmt.Sprintf("%s: %s", label, what),
			map[string]any{"case": label, "before": clipS(before.String(), 500), "after": clipS(after.String(), 500)})
	}
	term := func(f string) string { fl, _ := fc.Kind.FieldByTerm(strings.ToLower(f[:1]) + f[1:]); return fl.Term }
	// (a) flattened single positions
	for f, w := range wantItems {
		got := after.Props[term(f)]
		if w.exempt {
			continue
		}
		if !w.node.Equal(got) {
			shape := vmodel.Shape(before.Props[term(f)])
			fail("item", shape, "not-as-model", fmt.Sprintf("%s is %s after flattening, expected %s", f, got.String(), w.node.String()))
		}
	}
	// (a) flattened list positions
	for f, wl := range wantLists {
		if exemptList[f] {
			continue
		}
		var gl []*vmodel.Node
		if g := after.Props[term(f)]; g != nil {
			gl = g.List
		}
		// canonical lists drop nothing, but nil members canonicalise to nil nodes: compare including them
		fv := v.FieldByName(f).Interface().(vocab.ItemCollection)
		gl = gl[:0]
		for _, it := range fv {
			gl = append(gl, vmodel.Canon(it, vmodel.Exact))
		}
		if !listAccepts(wl, gl) {
			fail("list", listShape(fc.Lists[f]), "not-as-model", fmt.Sprintf("%s is %v after flattening, expected %v or its de-duplication", f, nodesDesc(gl), nodesDesc(wl)))
		}
	}
	// (b) no IRI that was not an id or IRI inside the original
	now := map[string]bool{}
	collectIRIs(after, now)
	for iri := range now {
		if !allowed[iri] {
			fail("any", "-", "invented-iri", fmt.Sprintf("IRI %q appears after flattening but was nowhere in the original", iri))
		}
	}
	// (c) every other property unchanged
	flatTerms := map[string]bool{}
	for i, f := range flatItemFields {
		if i < 6 && !isActivity {
			continue
		}
		flatTerms[strings.ToLower(f[:1])+f[1:]] = true
	}
	for _, f := range []string{"to", "bto", "cc", "bcc", "audience"} {
		flatTerms[f] = true
	}
	for _, d := range vmodel.Diff(before, after) {
		first := strings.TrimPrefix(d.Path, fc.Kind.Name+".")
		if i := strings.IndexAny(first, "/["); i >= 0 {
			first = first[:i]
		}
		if !flatTerms[first] {
			fail("other:"+first, "-", "other-property-changed", fmt.Sprintf("%s %s", d.Path, d.Kind))
		}
	}
	// (d) flattening twice equals flattening once
	if call(p) {
		return
	}
	again := vmodel.Canon(p, vmodel.Exact)
	if ds := vmodel.Diff(after, again); len(ds) > 0 {
		fail("any", "-", "not-idempotent", fmt.Sprintf("a second flatten changed %s (%s)", ds[0].Path, ds[0].Kind))
	}
}

func listShape(l []vocab.Item) string {
	has := map[string]bool{}
	ids := map[string]int{}
	for _, it := range l {
		switch {
		case it == nil:
			has["nil"] = true
		case isLinkItem(it):
			has["link"] = true
		case len(it.GetLink()) == 0:
			has["noid"] = true
		default:
			ids[flatKey(&vmodel.Node{Kind: "iri", S: string(it.GetLink())})]++
		}
	}
	for _, n := range ids {
		if n > 1 {
			has["dup"] = true
		}
	}
	var parts []string
	for _, k := range []string{"dup", "link", "nil", "noid"} {
		if has[k] {
			parts = append(parts, k)
		}
	}
	if len(parts) == 0 {
		return "plain"
	}
	return strings.Join(parts, "+")
}

func nodesDesc(l []*vmodel.Node) []string {
	out := make([]string, len(l))
	for i, n := range l {
		out[i] = clipS(n.String(), 80)
	}
	return out
}

func typeClass(k vmodel.StructKind, typ string) string {
	if typ == "" {
		return "untyped"
	}
	if len(k.Types) > 1 && typ == k.Types[0] {
		return "generic"
	}
	return "specific"
}

type flatTarget struct {
	Kind vmodel.StructKind
	Type string
}

var flatTargets = func() []flatTarget {
	var out []flatTarget
	for _, name := range []string{"Object", "Actor", "Activity", "IntransitiveActivity", "Question", "Place", "Profile", "Relationship", "Tombstone"} {
		k := vmodel.Kinds[vmodel.KindIndex(name)]
		out = append(out, flatTarget{k, k.SpecificType()})
		if len(k.Types) > 1 {
			out = append(out, flatTarget{k, k.Types[0]})
		}
		if name == "Object" {
			out = append(out, flatTarget{k, ""})
		}
	}
	return out
}()

// list arrangements: all sequences of length <= 4 over these tokens
var flatListTokens = []string{"objA", "iriA", "objB", "noid", "noid2", "nil", "link", "iriC", "link-hashtag", "link-untyped", "public-compact", "obj-typed-person"}

// wider token set for the random layer: every object kind as a list member too
var flatListTokensWide = func() []string {
	t := append([]string{}, flatListTokens...)
	for _, k := range vmodel.Kinds {
		if k.Fam == "collection" || k.Fam == "link" {
			continue
		}
		t = append(t, "k:"+k.Name)
	}
	for i := range oddIDs {
		t = append(t, fmt.Sprintf("oddid:%d", i))
	}
	for _, tok := range flatTokens {
		if strings.HasPrefix(tok, "kx:") {
			t = append(t, tok)
		}
	}
	return t
}()

func flatListItem(tok string) vocab.Item {
	if strings.HasPrefix(tok, "k:") || strings.HasPrefix(tok, "kx:") || strings.HasPrefix(tok, "oddid:") {
		return flatItem(tok, 7)
	}
	switch tok {
	case "objA":
		return &vocab.Actor{ID: "https://example.com/flat/A", Type: vocab.PersonType}
	case "iriA":
		return vocab.IRI("https://example.com/flat/A")
	case "objB":
		return &vocab.Object{ID: "https://example.com/flat/B", Type: vocab.NoteType}
	case "noid":
		return &vocab.Object{Type: vocab.NoteType, Name: vocab.NaturalLanguageValues{{Ref: vocab.NilLangRef, Value: vocab.Content("no id")}}}
	case "noid2":
		// a second, different object without an id: nobody's duplicate
		return &vocab.Actor{Type: vocab.PersonType, PreferredUsername: vocab.NaturalLanguageValues{{Ref: vocab.NilLangRef, Value: vocab.Content("anonymous")}}}
	case "nil":
		return nil
	case "link":
		return &vocab.Link{ID: "https://example.com/flat/L", Type: vocab.MentionType, Href: "https://example.com/flat/A"}
	case "iriC":
		return vocab.IRI("https://example.com/flat/C")
	case "link-hashtag":
		return &vocab.Link{ID: "https://example.com/flat/H", Type: "Hashtag", Href: "https://example.com/tags/go"}
	case "link-untyped":
		return &vocab.Link{Href: "https://example.com/flat/untyped-href"}
	case "public-compact":
		return vocab.IRI("as:Public") // the public collection under its compact name: a plain IRI like any other
	case "obj-typed-person":
		return &vocab.Object{ID: "https://example.com/flat/P", Type: vocab.PersonType} // an addressee held in a plain Object
	}
	panic(tok)
}

func init() {
	nt := len(flatListTokens)
	nArr := 0
	pw := 1
	for l := 1; l <= 4; l++ {
		pw *= nt
		nArr += pw
	}
	decodeArr := func(idx int) []string {
		l, pw := 1, nt
		for idx >= pw {
			idx -= pw
			pw *= nt
			l++
		}
		out := make([]string, l)
		for i := range out {
			out[i] = flatListTokens[idx%nt]
			idx /= nt
		}
		return out
	}
	vias := []string{"dispatcher", "typed"}
	Register(&Prop{
		ID: "C16",
		Rule: "model: in actor, object, target, result, origin, instrument, attributedTo, replies, likes, shares every embedded non-collection object with an id becomes that id; IRIs, links (with or without id) and id-less objects stay; in to/bto/cc/bcc/audience likewise (the result may also be the de-duplication of the model, nothing else); no IRI may appear that was not in the original; every other property unchanged; flatten twice = once. " +
			"Exhaustive: 9 kinds x {specific, generic, untyped} type names x every flattened single position x 30+ item shapes (IRI, objects with and without id, links, value forms, every non-collection object kind in pointer and value form, collections, lists) x {dispatching FlattenProperties, typed Flatten*Properties}; all list arrangements of length <= 4 over {object A, IRI A, object B, id-less object, a second different id-less object, nil, link, IRI C, a link typed outside the link vocabulary, an untyped link} in each of the five lists; random combinations; distinct = the case; non-trivial = all",
		Layers: func(tier string) []Layer {
			return []Layer{
				{Name: "single-positions", N: len(flatTargets) * len(flatItemFields) * len(flatTokens) * 2, Exhaustive: true, Run: func(c *Ctx, idx int) {
					via := vias[idx%2]
					k := idx / 2
					tok := flatTokens[k%len(flatTokens)]
					k /= len(flatTokens)
					f := flatItemFields[k%len(flatItemFields)]
					ft := flatTargets[k/len(flatItemFields)]
					if !reflect.ValueOf(ft.Kind.New()).Elem().FieldByName(f).IsValid() {
						return
					}
					fc := flatCase{Kind: ft.Kind, Type: ft.Type, Items: map[string]vocab.Item{f: flatItem(tok, idx)}, Via: via}
					label := fmt.Sprintf("%s[%s].%s=%s via %s", ft.Kind.Name, ft.Type, f, tok, via)
					c.Distinct(label, true)
					c.Count("token:"+tok, 1)
					if idx%600 == 0 {
						c.Sample(map[string]any{"case": label})
					}
					runFlatten(c, fc, label)
				}},
				{Name: "emptied-lists", N: len(flatTargets) * len(flatListFields) * 2, Exhaustive: true, Run: func(c *Ctx, idx int) {
					// what Clean(), Remove of the only member or a de-duplication leave behind: a list that is there with nobody in it
					// (with and without spare capacity holding a former member), next to a filled one
					ft := flatTargets[idx%len(flatTargets)]
					f := flatListFields[(idx/len(flatTargets))%len(flatListFields)]
					via := vias[(idx/(len(flatTargets)*len(flatListFields)))%2]
					other := flatListFields[((idx/len(flatTargets))+1)%len(flatListFields)]
					fc := flatCase{Kind: ft.Kind, Type: ft.Type, Lists: map[string][]vocab.Item{f: {}, other: {flatListItem("objA"), flatListItem("iriC")}}, Via: via, Emptied: f}
					label := fmt.Sprintf("%s[%s].%s=[] (emptied) %s=[objA iriC] via %s", ft.Kind.Name, ft.Type, f, other, via)
					c.Distinct(label, true)
					c.Count("emptied-lists", 1)
					runFlatten(c, fc, label)
				}},
				{Name: "list-arrangements", N: nArr * len(flatListFields), Exhaustive: true, Run: func(c *Ctx, idx int) {
					f := flatListFields[idx%len(flatListFields)]
					arr := decodeArr(idx / len(flatListFields))
					var l []vocab.Item
					for _, t := range arr {
						l = append(l, flatListItem(t))
					}
					ft := flatTargets[(idx/7)%len(flatTargets)]
					via := vias[(idx/3)%2]
					fc := flatCase{Kind: ft.Kind, Type: ft.Type, Lists: map[string][]vocab.Item{f: l}, Via: via}
					label := fmt.Sprintf("%s[%s].%s=[%s] via %s", ft.Kind.Name, ft.Type, f, strings.Join(arr, " "), via)
					c.Distinct(label, true)
					if idx%2500 == 0 {
						c.Sample(map[string]any{"case": label})
					}
					runFlatten(c, fc, label)
				}},
				{Name: "random", N: tierN(tier, 20000, 300000), Run: func(c *Ctx, idx int) {
					ft := flatTargets[c.R.Intn(len(flatTargets))]
					fc := flatCase{Kind: ft.Kind, Type: ft.Type, Items: map[string]vocab.Item{}, Lists: map[string][]vocab.Item{}, Via: vias[c.R.Intn(2)]}
					var desc []string
					for _, f := range flatItemFields {
						if c.R.Intn(3) == 0 {
							tok := flatTokens[c.R.Intn(len(flatTokens))]
							fc.Items[f] = flatItem(tok, idx*16+len(desc))
							desc = append(desc, f+"="+tok)
						}
					}
					for _, f := range flatListFields {
						if c.R.Intn(3) == 0 {
							n := 1 + c.R.Intn(6)
							if c.R.Intn(6) == 0 {
								n = 8 + c.R.Intn(14)
							}
							var toks []string
							for i := 0; i < n; i++ {
								t := flatListTokensWide[c.R.Intn(len(flatListTokensWide))]
								toks = append(toks, t)
								fc.Lists[f] = append(fc.Lists[f], flatListItem(t))
							}
							desc = append(desc, f+"=["+strings.Join(toks, " ")+"]")
						}
					}
					label := fmt.Sprintf("%s[%s] %s via %s", ft.Kind.Name, ft.Type, strings.Join(desc, " "), fc.Via)
					c.Distinct(label, true)
					runFlatten(c, fc, label)
				}},
			}
		},
		Floors: func(tier string) map[string]int64 {
			return map[string]int64{"flattens": 30000, "via:dispatcher": 10000, "via:typed": 10000}
		},
		Assumptions: []string{
			"collection-valued entries in flattened positions are exempt from replacement and held only to: no invented IRI, other properties unchanged, idempotence",
			"list results may be the de-duplication of the model (later duplicates and nil entries dropped), nothing else",
		},
	})
}
