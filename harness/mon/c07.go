package mon

import (
	"encoding/json"
	"fmt"
	"reflect"
	"strings"

	vocab "github.com/go-ap/activitypub"
	"github.com/valyala/fastjson"

	"verif/harness/vmodel"
)

// C07: every vocabulary type name maps to one Go type, consistently everywhere.

type typeName struct {
	Name    string
	Kind    vmodel.StructKind
	Generic bool
	InVocab bool // member of the library's own Types list is not consulted: this comes from the literal table
}

var allTypeNames = func() []typeName {
	var out []typeName
	for _, k := range vmodel.Kinds {
		for i, t := range k.Types {
			out = append(out, typeName{t, k, i == 0 && len(k.Types) > 1, true})
		}
	}
	out = append(out, typeName{"", vmodel.Kinds[0], true, true})
	return out
}()

var outsideNames = []string{"Bogus", "note", "NOTE", "IRI", "ItemCollection", "IRICollection", "Extension2", "object"}

var typeContexts = []string{"registry", "json-top", "json-item", "json-list", "json-list-mixed", "json-items", "gob-top", "gob-item", "gob-list"}

const markerName = "marker text"

type extType struct{ vocab.Object }

// installHooks installs extension hooks that know exactly one name outside the vocabulary and delegate otherwise.
func installHooks() (restore func()) {
	ot, ou, oe := vocab.ItemTyperFunc, vocab.JSONItemUnmarshal, vocab.IsNotEmpty
	vocab.ItemTyperFunc = func(t vocab.ActivityVocabularyType) (vocab.Item, error) {
		if t == "Extension" {
			return &vocab.Object{Type: "Extension"}, nil
		}
		return vocab.GetItemByType(t)
	}
	vocab.JSONItemUnmarshal = func(t vocab.ActivityVocabularyType, v *fastjson.Value, it vocab.Item) error {
		if t == "Extension" {
			return vocab.OnObject(it, func(o *vocab.Object) error { return vocab.JSONLoadObject(v, o) })
		}
		return fmt.Errorf("unknown type %s", t)
	}
	vocab.IsNotEmpty = func(it vocab.Item) bool { return vocab.NotEmpty(it) }
	return func() { vocab.ItemTyperFunc, vocab.JSONItemUnmarshal, vocab.IsNotEmpty = ot, ou, oe }
}

type typeOutcome struct {
	GoKind string // struct name, "nil", "error", or other Go type
	Type   string
	ID     string
	Marker bool // the name marker and the kind's own marker property both came back
	KindOK bool // the kind's own marker property came back (true for kinds without one)
	Err    string
}

func (o typeOutcome) String() string {
	return fmt.Sprintf("%s{type:%q id:%q marker:%v err:%q}", o.GoKind, o.Type, o.ID, o.Marker, o.Err)
}

func outcomeOf(it vocab.Item, err error) typeOutcome {
	if err != nil {
		return typeOutcome{GoKind: "error", Err: clipS(err.Error(), 80)}
	}
	if it == nil {
		return typeOutcome{GoKind: "nil"}
	}
	o := typeOutcome{GoKind: kindOf(it)}
	n := vmodel.Canon(it, vmodel.Exact)
	if n != nil && n.Props != nil {
		if t := n.Props["type"]; t != nil {
			o.Type = t.S
		}
		if i := n.Props["id"]; i != nil {
			o.ID = i.S
		}
		if nm := n.Props["name"]; nm != nil && len(nm.List) == 1 && strings.HasSuffix(nm.List[0].S, "\x00"+markerName) {
			o.Marker = true
		}
		// the property only this kind declares must have come back too
		o.KindOK = true
		if m, ok := kindMarkers[n.GoT]; ok && n.Props[m.Term] == nil {
			o.Marker = false
			o.KindOK = false
		}
	} else if n != nil {
		o.GoKind = reflect.TypeOf(it).String()
	}
	return o
}

// kindMarker: one property that only this struct kind declares (term, JSON value, Go setter).
var kindMarkers = map[string]struct {
	Term string
	JSON any
	Set  func(v reflect.Value)
}{
	"Actor": {"inbox", "https://example.com/marker/inbox", func(v reflect.Value) {
		v.FieldByName("Inbox").Set(reflect.ValueOf(vocab.IRI("https://example.com/marker/inbox")))
	}},
	"Activity": {"object", "https://example.com/marker/object", func(v reflect.Value) {
		v.FieldByName("Object").Set(reflect.ValueOf(vocab.IRI("https://example.com/marker/object")))
	}},
	"IntransitiveActivity": {"actor", "https://example.com/marker/actor", func(v reflect.Value) {
		v.FieldByName("Actor").Set(reflect.ValueOf(vocab.IRI("https://example.com/marker/actor")))
	}},
	"Question":          {"closed", true, func(v reflect.Value) { v.FieldByName("Closed").SetBool(true) }},
	"Collection":        {"totalItems", 7, func(v reflect.Value) { v.FieldByName("TotalItems").SetUint(7) }},
	"OrderedCollection": {"totalItems", 7, func(v reflect.Value) { v.FieldByName("TotalItems").SetUint(7) }},
	"CollectionPage": {"partOf", "https://example.com/marker/partOf", func(v reflect.Value) {
		v.FieldByName("PartOf").Set(reflect.ValueOf(vocab.IRI("https://example.com/marker/partOf")))
	}},
	"OrderedCollectionPage": {"startIndex", 3, func(v reflect.Value) { v.FieldByName("StartIndex").SetUint(3) }},
	"Place":                 {"latitude", 12.5, func(v reflect.Value) { v.FieldByName("Latitude").SetFloat(12.5) }},
	"Profile": {"describes", "https://example.com/marker/describes", func(v reflect.Value) {
		v.FieldByName("Describes").Set(reflect.ValueOf(vocab.IRI("https://example.com/marker/describes")))
	}},
	"Relationship": {"subject", "https://example.com/marker/subject", func(v reflect.Value) {
		v.FieldByName("Subject").Set(reflect.ValueOf(vocab.IRI("https://example.com/marker/subject")))
	}},
	"Tombstone": {"formerType", "Note", func(v reflect.Value) {
		v.FieldByName("FormerType").Set(reflect.ValueOf(vocab.ActivityVocabularyType("Note")))
	}},
	"Link": {"href", "https://example.com/marker/href", func(v reflect.Value) {
		v.FieldByName("Href").Set(reflect.ValueOf(vocab.IRI("https://example.com/marker/href")))
	}},
}

// sparseDocs: documents and values that carry nothing but the type name and the kind's own marker property (no id, no name):
// whether such a value counts as "not empty" hangs on the type name and on that one property
var sparseDocs bool

func typeDoc(name, id string) map[string]any {
	d := map[string]any{"id": id, "name": markerName}
	if sparseDocs {
		d = map[string]any{}
	}
	if name != "" {
		d["type"] = name
	}
	if k, ok := vmodel.KindOfType(name); ok {
		if m, ok := kindMarkers[k.Name]; ok {
			d[m.Term] = m.JSON
		}
	}
	return d
}

// buildTyped builds a value of the struct kind the table assigns (Object for names outside the vocabulary).
func buildTyped(k vmodel.StructKind, name, id string) vocab.Item {
	p := reflect.ValueOf(k.New())
	p.Elem().FieldByName("Type").Set(reflect.ValueOf(vocab.ActivityVocabularyType(name)))
	if !sparseDocs {
		p.Elem().FieldByName("ID").Set(reflect.ValueOf(vocab.IRI(id)))
		p.Elem().FieldByName("Name").Set(reflect.ValueOf(vocab.NaturalLanguageValues{{Ref: vocab.NilLangRef, Value: vocab.Content(markerName)}}))
	}
	if _, inVocab := vmodel.KindOfType(name); inVocab {
		if m, ok := kindMarkers[k.Name]; ok {
			m.Set(p.Elem())
		}
	}
	return p.Interface().(vocab.Item)
}

// observeType runs one (name, context) cell and returns what came out at the position of interest.
func observeType(c *Ctx, name string, k vmodel.StructKind, ctx string) (typeOutcome, bool) {
	id := "https://example.com/typed/" + ctx
	var out typeOutcome
	panicked := c.Guard("C07."+ctx, func() {
		switch ctx {
		case "registry":
			it, err := vocab.GetItemByType(vocab.ActivityVocabularyType(name))
			if fn := vocab.ItemTyperFunc; fn != nil {
				it, err = fn(vocab.ActivityVocabularyType(name))
			}
			out = outcomeOf(it, err)
			out.ID, out.Marker = id, true // nothing was written
		case "json-top":
			b, _ := json.Marshal(typeDoc(name, id))
			it, err := vocab.UnmarshalJSON(b)
			out = outcomeOf(it, err)
			keepDecoded(c, "type", vmodel.Exact, it, name+" "+ctx)
		case "json-item":
			b, _ := json.Marshal(map[string]any{"id": "https://example.com/outer", "type": "Create", "object": typeDoc(name, id)})
			it, err := vocab.UnmarshalJSON(b)
			keepDecoded(c, "type", vmodel.Exact, it, name+" "+ctx)
			if a, ok := it.(*vocab.Activity); ok && err == nil {
				out = outcomeOf(a.Object, nil)
			} else {
				out = outcomeOf(nil, fmt.Errorf("outer document did not decode to an activity: %T %v", it, err))
			}
		case "json-list":
			b, _ := json.Marshal(map[string]any{"id": "https://example.com/outer", "type": "Note", "tag": []any{"https://example.com/first", typeDoc(name, id)}})
			it, err := vocab.UnmarshalJSON(b)
			keepDecoded(c, "type", vmodel.Exact, it, name+" "+ctx)
			if o, ok := it.(*vocab.Object); ok && err == nil {
				if len(o.Tag) == 2 {
					out = outcomeOf(o.Tag[1], nil)
				} else {
					out = outcomeOf(nil, nil)
				}
			} else {
				out = outcomeOf(nil, fmt.Errorf("outer document did not decode to an object: %T %v", it, err))
			}
		case "json-list-mixed":
			// the list also holds a member whose type is outside the vocabulary (Mastodon's Hashtag beside a Mention): whatever
			// becomes of that member, the one under test is found by exclusion
			const first, hashtag = "https://example.com/first", "https://example.com/tags/x"
			b, _ := json.Marshal(map[string]any{"id": "https://example.com/outer", "type": "Note", "tag": []any{first,
				map[string]any{"id": hashtag, "type": "Hashtag", "name": "#x", "href": hashtag}, typeDoc(name, id)}})
			it, err := vocab.UnmarshalJSON(b)
			keepDecoded(c, "type", vmodel.Exact, it, name+" "+ctx)
			if o, ok := it.(*vocab.Object); ok && err == nil {
				out = outcomeOf(nil, nil)
				for _, m := range o.Tag {
					if vocab.IsNil(m) || m.GetLink() == first || m.GetLink() == hashtag {
						continue
					}
					out = outcomeOf(m, nil)
				}
			} else {
				out = outcomeOf(nil, fmt.Errorf("outer document did not decode to an object: %T %v", it, err))
			}
		case "json-items":
			b, _ := json.Marshal(map[string]any{"id": "https://example.com/outer", "type": "OrderedCollection", "totalItems": 1, "orderedItems": []any{typeDoc(name, id)}})
			it, err := vocab.UnmarshalJSON(b)
			if o, ok := it.(*vocab.OrderedCollection); ok && err == nil {
				if len(o.OrderedItems) == 1 {
					out = outcomeOf(o.OrderedItems[0], nil)
				} else {
					out = outcomeOf(nil, nil)
				}
			} else {
				out = outcomeOf(nil, fmt.Errorf("outer document did not decode to a collection: %T %v", it, err))
			}
		case "gob-top":
			b, err := vocab.GobEncode(buildTyped(k, name, id))
			if err != nil {
				out = outcomeOf(nil, err)
				return
			}
			it, err := vocab.GobDecode(b)
			out = outcomeOf(it, err)
		case "gob-item":
			outer := &vocab.Activity{ID: "https://example.com/outer", Type: vocab.CreateType, Object: buildTyped(k, name, id)}
			b, err := vocab.GobEncode(outer)
			if err != nil {
				out = outcomeOf(nil, err)
				return
			}
			it, err := vocab.GobDecode(b)
			if a, ok := it.(*vocab.Activity); ok && err == nil {
				out = outcomeOf(a.Object, nil)
			} else {
				out = outcomeOf(nil, fmt.Errorf("outer value did not decode to an activity: %T %v", it, err))
			}
		case "gob-list":
			outer := &vocab.Object{ID: "https://example.com/outer", Type: vocab.NoteType, Tag: vocab.ItemCollection{vocab.IRI("https://example.com/first"), buildTyped(k, name, id)}}
			b, err := vocab.GobEncode(outer)
			if err != nil {
				out = outcomeOf(nil, err)
				return
			}
			it, err := vocab.GobDecode(b)
			if o, ok := it.(*vocab.Object); ok && err == nil && len(o.Tag) == 2 {
				out = outcomeOf(o.Tag[1], nil)
			} else {
				out = outcomeOf(nil, fmt.Errorf("outer value did not decode to an object with two tags: %T %v", it, err))
			}
		}
	})
	c.Eval(1)
	return out, !panicked
}

func familyAccepts(it vocab.Item, fam string) (string, bool) {
	noop := func() error { return nil }
	switch fam {
	case "object":
		return "OnObject", vocab.OnObject(it, func(*vocab.Object) error { return noop() }) == nil
	case "actor":
		_, err := vocab.ToActor(it)
		return "OnActor/ToActor", err == nil && vocab.OnActor(it, func(*vocab.Actor) error { return nil }) == nil
	case "activity":
		_, err := vocab.ToActivity(it)
		return "OnActivity/ToActivity", err == nil && vocab.OnActivity(it, func(*vocab.Activity) error { return nil }) == nil
	case "intransitive":
		_, err := vocab.ToIntransitiveActivity(it)
		return "OnIntransitiveActivity", err == nil && vocab.OnIntransitiveActivity(it, func(*vocab.IntransitiveActivity) error { return nil }) == nil
	case "question":
		_, err := vocab.ToQuestion(it)
		return "OnQuestion/ToQuestion", err == nil && vocab.OnQuestion(it, func(*vocab.Question) error { return nil }) == nil &&
			vocab.OnIntransitiveActivity(it, func(*vocab.IntransitiveActivity) error { return nil }) == nil
	case "collection":
		return "OnCollectionIntf", vocab.OnCollectionIntf(it, func(vocab.CollectionInterface) error { return nil }) == nil
	case "link":
		_, err := vocab.ToLink(it)
		return "OnLink/ToLink", err == nil && vocab.OnLink(it, func(*vocab.Link) error { return nil }) == nil
	}
	return "?", false
}

func checkFamily(c *Ctx, tn typeName) {
	name := vocab.ActivityVocabularyType(tn.Name)
	fam := tn.Kind.Fam
	fail := func(what, detail string) {
		c.Fail(fmt.Sprintf("type|family|%s|%s", fam, what), fmt.Sprintf("type %q (family %s): %s", tn.Name, fam, detail), map[string]any{"type": tn.Name, "family": fam})
	}
	it := buildTyped(tn.Kind, tn.Name, "https://example.com/fam")
	c.Guard("C07.family", func() {
		// the methods on a value of that type
		wantObj, wantLink, wantCol := fam != "link", fam == "link", fam == "collection"
		if it.IsObject() != wantObj {
			fail("IsObject-method", fmt.Sprintf("IsObject() = %v", it.IsObject()))
		}
		if it.IsLink() != wantLink {
			fail("IsLink-method", fmt.Sprintf("IsLink() = %v", it.IsLink()))
		}
		if it.IsCollection() != wantCol {
			fail("IsCollection-method", fmt.Sprintf("IsCollection() = %v", it.IsCollection()))
		}
		if vocab.IsObject(it) != wantObj {
			fail("IsObject-func", fmt.Sprintf("IsObject(it) = %v", vocab.IsObject(it)))
		}
		if vocab.IsLink(it) != wantLink {
			fail("IsLink-func", fmt.Sprintf("IsLink(it) = %v", vocab.IsLink(it)))
		}
		val := reflect.ValueOf(it).Elem().Interface().(vocab.Item)
		if val.IsObject() != wantObj || val.IsLink() != wantLink || val.IsCollection() != wantCol {
			fail("value-form-methods", "the value form answers differently from the table")
		}
		// the family's helper accepts it
		if h, ok := familyAccepts(it, fam); !ok {
			fail("helper-refuses", h+" refuses a value of its own family")
		}
		if fam != "link" {
			if _, err := vocab.ToObject(it); err != nil {
				fail("ToObject-refuses", err.Error())
			}
		}
		// membership lists: specific names only (the lists deliberately omit the generic names)
		if !tn.Generic && tn.Name != "" {
			lists := map[string]vocab.ActivityVocabularyTypes{"object": vocab.ObjectTypes, "actor": vocab.ActorTypes, "activity": vocab.ActivityTypes,
				"intransitive": vocab.IntransitiveActivityTypes, "link": vocab.LinkTypes, "collection": vocab.CollectionTypes}
			home := fam
			if fam == "question" {
				home = "intransitive"
			}
			for lf, l := range lists {
				in := l.Contains(name)
				if lf == home && !in {
					fail("missing-from-"+lf+"-list", "the family's membership list does not contain it")
				}
				if lf != home && in {
					fail("listed-in-"+lf, "a membership list of another family contains it")
				}
			}
			if !vocab.Types.Contains(name) {
				fail("missing-from-Types", "Types does not contain it")
			}
		}
	})
	c.Eval(10)
}

func init() {
	nCtx := len(typeContexts)
	Register(&Prop{
		ID: "C07",
		Rule: fmt.Sprintf("finite and enumerated completely on every run: %d vocabulary names (every name of the literal W3C table incl. the generic names and the empty name) x %d contexts (registry; JSON top level, nested in an item position, in a list position, in a list position beside a member typed outside the vocabulary, in orderedItems; gob top level, nested in an item and a list position) x {hooks unset, hooks set}; the struct kind must be the one the table assigns, the id, a marker property of the object core and a marker property that only that struct kind declares must come back; family predicates, IsObject/IsLink/IsCollection methods, membership lists and the family's On/To helper must agree with the table; %d names outside the vocabulary must yield an error, nothing, or (registry) a blank untyped object - never a value of a wrong vocabulary type; outcomes with hooks installed must equal those without for every vocabulary name; distinct = cell; non-trivial = all",
			len(allTypeNames), nCtx, len(outsideNames)),
		Layers: func(tier string) []Layer {
			return []Layer{
				{Name: "names-x-contexts", N: len(allTypeNames) * nCtx, Exhaustive: true, Run: func(c *Ctx, idx int) {
					tn := allTypeNames[idx/nCtx]
					ctx := typeContexts[idx%nCtx]
					c.Distinct(tn.Name+"|"+ctx, true)
					c.Count("cells", 1)
					c.Count("context:"+ctx, 1)
					if idx%41 == 0 {
						c.Sample(map[string]any{"type": tn.Name, "context": ctx, "expected_kind": tn.Kind.Name})
					}
					c.Pending("C07 " + tn.Name + " " + ctx)
					plain, ok := observeType(c, tn.Name, tn.Kind, ctx)
					if !ok {
						return
					}
					restore := installHooks()
					hooked, ok2 := observeType(c, tn.Name, tn.Kind, ctx)
					restore()
					if !ok2 {
						return
					}
					nameCls := "specific"
					if tn.Generic {
						nameCls = "generic"
					}
					sig := func(what string) string { return fmt.Sprintf("type|%s|%s|%s|%s", ctx, tn.Kind.Name, nameCls, what) }
					if plain.GoKind != tn.Kind.Name {
						c.Fail(sig("wrong-go-type"), fmt.Sprintf("type %q in context %s yields %s, the vocabulary assigns %s", tn.Name, ctx, plain, tn.Kind.Name), map[string]any{"type": tn.Name, "context": ctx, "got": plain.String()})
					} else {
						if plain.Type != tn.Name {
							c.Fail(sig("type-changed"), fmt.Sprintf("type %q in context %s came back typed %q", tn.Name, ctx, plain.Type), map[string]any{"type": tn.Name, "context": ctx, "got": plain.String()})
						}
						if ctx != "registry" && (plain.ID == "" || !plain.Marker) {
							c.Fail(sig("properties-lost"), fmt.Sprintf("type %q in context %s: id or marker property lost: %s", tn.Name, ctx, plain), map[string]any{"type": tn.Name, "context": ctx, "got": plain.String()})
						}
					}
					if hooked != plain {
						c.Fail(sig("hooks-change-outcome"), fmt.Sprintf("type %q in context %s: %s without hooks, %s with hooks", tn.Name, ctx, plain, hooked), map[string]any{"type": tn.Name, "context": ctx})
					}
				}},
				{Name: "sparse-cells", N: len(allTypeNames) * nCtx, Exhaustive: true, Run: func(c *Ctx, idx int) {
					tn := allTypeNames[idx/nCtx]
					ctx := typeContexts[idx%nCtx]
					if ctx == "registry" || tn.Name == "" {
						return
					}
					c.Distinct("sparse|"+tn.Name+"|"+ctx, true)
					c.Count("sparse-cells", 1)
					c.Pending("C07 sparse " + tn.Name + " " + ctx)
					sparseDocs = true
					defer func() { sparseDocs = false }()
					plain, ok := observeType(c, tn.Name, tn.Kind, ctx)
					if !ok {
						return
					}
					restore := installHooks()
					hooked, ok2 := observeType(c, tn.Name, tn.Kind, ctx)
					restore()
					if !ok2 {
						return
					}
					nameCls := "specific"
					if tn.Generic {
						nameCls = "generic"
					}
					sig := func(what string) string {
						return fmt.Sprintf("type|%s|%s|%s|sparse-%s", ctx, tn.Kind.Name, nameCls, what)
					}
					switch {
					case plain.GoKind != tn.Kind.Name:
						c.Fail(sig("wrong-go-type"), fmt.Sprintf("a value carrying only type %q and its kind's own property yields %s in context %s, the vocabulary assigns %s", tn.Name, plain, ctx, tn.Kind.Name), map[string]any{"type": tn.Name, "context": ctx, "got": plain.String()})
					case plain.Type != tn.Name:
						c.Fail(sig("type-changed"), fmt.Sprintf("type %q in context %s came back typed %q", tn.Name, ctx, plain.Type), map[string]any{"type": tn.Name, "context": ctx})
					case !plain.KindOK:
						c.Fail(sig("properties-lost"), fmt.Sprintf("type %q in context %s: the kind's own property was lost: %s", tn.Name, ctx, plain), map[string]any{"type": tn.Name, "context": ctx})
					}
					if hooked != plain {
						c.Fail(sig("hooks-change-outcome"), fmt.Sprintf("type %q in context %s: %s without hooks, %s with hooks", tn.Name, ctx, plain, hooked), map[string]any{"type": tn.Name, "context": ctx})
					}
				}},
				{Name: "families", N: len(allTypeNames), Exhaustive: true, Run: func(c *Ctx, idx int) {
					tn := allTypeNames[idx]
					c.Distinct("family|"+tn.Name, true)
					c.Count("family-cells", 1)
					checkFamily(c, tn)
					restore := installHooks()
					checkFamily(c, tn)
					restore()
				}},
				{Name: "outside-names", N: len(outsideNames) * nCtx, Exhaustive: true, Run: func(c *Ctx, idx int) {
					name := outsideNames[idx/nCtx]
					ctx := typeContexts[idx%nCtx]
					c.Distinct("outside|"+name+"|"+ctx, true)
					c.Count("outside-cells", 1)
					out, ok := observeType(c, name, vmodel.Kinds[0], ctx)
					if !ok {
						return
					}
					okKinds := map[string]bool{"error": true, "nil": true, "Object": true, "IRIs": true, "ItemCollection": true}
					if !okKinds[out.GoKind] {
						c.Fail("type|outside|"+ctx+"|wrong-vocabulary-struct", fmt.Sprintf("name %q outside the vocabulary yields %s in context %s", name, out, ctx), map[string]any{"type": name, "context": ctx})
					}
					if out.GoKind == "Object" && out.Type != "" && out.Type != name {
						if _, isVocab := vmodel.KindOfType(out.Type); isVocab {
							c.Fail("type|outside|"+ctx+"|retyped", fmt.Sprintf("name %q outside the vocabulary came back as vocabulary type %q", name, out.Type), map[string]any{"type": name, "context": ctx})
						}
					}
					// the extension hooks change the outcome only for the name they know
					restore := installHooks()
					ext, ok3 := observeType(c, "Extension", vmodel.Kinds[0], ctx)
					restore()
					if ok3 && strings.HasPrefix(ctx, "json") && (ext.GoKind != "Object" || ext.Type != "Extension" || !ext.Marker) {
						c.Fail("type|hooks|"+ctx+"|extension-not-decoded", fmt.Sprintf("with hooks installed the extension type decodes to %s in context %s", ext, ctx), map[string]any{"context": ctx})
					}
				}},
			}
		},
		Floors: func(tier string) map[string]int64 {
			return map[string]int64{"cells": int64(len(allTypeNames) * nCtx), "family-cells": int64(len(allTypeNames)), "outside-cells": int64(len(outsideNames) * nCtx)}
		},
		Assumptions: []string{
			"the literal vocabulary table in harness/vmodel/vocab.go (from the W3C ActivityStreams vocabulary) is the reference for name -> struct kind and family",
			"membership lists are checked for specific names only (the library's lists deliberately omit the generic names); the registry may answer an unknown name with a blank untyped Object",
		},
	})
}
