package mon

import (
	"fmt"
	"go/ast"
	"go/parser"
	"go/token"
	"os"
	"path/filepath"
	"reflect"
	"sort"
	"strings"

	vocab "github.com/go-ap/activitypub"

	"verif/harness/vmodel"
)

// C20: nil and typed-nil items are handled as 'nothing', never as a crash.

// cbCheck inspects what a callback received: nil is fine; a non-nil pointer must point to a value
// that can be read in full and is empty (a pointer into unrelated memory shows up as garbage or as a fault).
func cbCheck(c *Ctx, helper, nilKind string, p any) {
	c.Count("callbacks-invoked", 1)
	v := reflect.ValueOf(p)
	if !v.IsValid() {
		return
	}
	if v.Kind() == reflect.Interface || v.Kind() == reflect.Pointer {
		if v.IsNil() {
			c.Count("callbacks-with-nil", 1)
			return
		}
	}
	// non-nil: read everything
	var n *vmodel.Node
	c.Guard(helper+".callback-read", func() { n = vmodel.Canon(p, vmodel.Exact) })
	empty := n == nil || ((n.Kind == "obj" || n.Kind == "link" || n.Kind == "list") && len(n.Props) == 0 && len(n.List) == 0)
	if !empty {
		c.Fail(fmt.Sprintf("nil|%s|%s|callback-got-non-empty-pointer", helper, nilClass2(nilKind)), fmt.Sprintf("%s(%s): the callback received a non-nil pointer to a non-empty value: %s", helper, nilKind, clipS(n.String(), 200)), map[string]any{"helper": helper, "nil": nilKind})
	}
}

func nilClass2(n string) string {
	if n == "untyped-nil" {
		return n
	}
	return "typed-nil"
}

type nilHelper struct {
	Name string
	// Call runs the helper with the nil-like item; it reports a non-neutral result through bad (empty = fine).
	Call func(c *Ctx, nk string, it vocab.Item) (bad string)
}

func errOrNil(err error) string { return "" }

func nilHelpers() []nilHelper {
	h := []nilHelper{}
	add := func(name string, f func(c *Ctx, nk string, it vocab.Item) string) { h = append(h, nilHelper{name, f}) }
	// ---- On* family ----
	add("OnLink", func(c *Ctx, nk string, it vocab.Item) string {
		_ = vocab.OnLink(it, func(p *vocab.Link) error { cbCheck(c, "OnLink", nk, p); return nil })
		return ""
	})
	add("OnObject", func(c *Ctx, nk string, it vocab.Item) string {
		_ = vocab.OnObject(it, func(p *vocab.Object) error { cbCheck(c, "OnObject", nk, p); return nil })
		return ""
	})
	add("OnActivity", func(c *Ctx, nk string, it vocab.Item) string {
		_ = vocab.OnActivity(it, func(p *vocab.Activity) error { cbCheck(c, "OnActivity", nk, p); return nil })
		return ""
	})
	add("OnIntransitiveActivity", func(c *Ctx, nk string, it vocab.Item) string {
		_ = vocab.OnIntransitiveActivity(it, func(p *vocab.IntransitiveActivity) error {
			cbCheck(c, "OnIntransitiveActivity", nk, p)
			return nil
		})
		return ""
	})
	add("OnQuestion", func(c *Ctx, nk string, it vocab.Item) string {
		_ = vocab.OnQuestion(it, func(p *vocab.Question) error { cbCheck(c, "OnQuestion", nk, p); return nil })
		return ""
	})
	add("OnActor", func(c *Ctx, nk string, it vocab.Item) string {
		_ = vocab.OnActor(it, func(p *vocab.Actor) error { cbCheck(c, "OnActor", nk, p); return nil })
		return ""
	})
	add("OnItemCollection", func(c *Ctx, nk string, it vocab.Item) string {
		_ = vocab.OnItemCollection(it, func(p *vocab.ItemCollection) error { cbCheck(c, "OnItemCollection", nk, p); return nil })
		return ""
	})
	add("OnIRIs", func(c *Ctx, nk string, it vocab.Item) string {
		_ = vocab.OnIRIs(it, func(p *vocab.IRIs) error { cbCheck(c, "OnIRIs", nk, p); return nil })
		return ""
	})
	add("OnCollectionIntf", func(c *Ctx, nk string, it vocab.Item) string {
		_ = vocab.OnCollectionIntf(it, func(p vocab.CollectionInterface) error { cbCheck(c, "OnCollectionIntf", nk, p); return nil })
		return ""
	})
	add("OnCollection", func(c *Ctx, nk string, it vocab.Item) string {
		_ = vocab.OnCollection(it, func(p *vocab.Collection) error { cbCheck(c, "OnCollection", nk, p); return nil })
		return ""
	})
	add("OnCollectionPage", func(c *Ctx, nk string, it vocab.Item) string {
		_ = vocab.OnCollectionPage(it, func(p *vocab.CollectionPage) error { cbCheck(c, "OnCollectionPage", nk, p); return nil })
		return ""
	})
	add("OnOrderedCollection", func(c *Ctx, nk string, it vocab.Item) string {
		_ = vocab.OnOrderedCollection(it, func(p *vocab.OrderedCollection) error { cbCheck(c, "OnOrderedCollection", nk, p); return nil })
		return ""
	})
	add("OnOrderedCollectionPage", func(c *Ctx, nk string, it vocab.Item) string {
		_ = vocab.OnOrderedCollectionPage(it, func(p *vocab.OrderedCollectionPage) error {
			cbCheck(c, "OnOrderedCollectionPage", nk, p)
			return nil
		})
		return ""
	})
	add("OnPlace", func(c *Ctx, nk string, it vocab.Item) string {
		_ = vocab.OnPlace(it, func(p *vocab.Place) error { cbCheck(c, "OnPlace", nk, p); return nil })
		return ""
	})
	add("OnProfile", func(c *Ctx, nk string, it vocab.Item) string {
		_ = vocab.OnProfile(it, func(p *vocab.Profile) error { cbCheck(c, "OnProfile", nk, p); return nil })
		return ""
	})
	add("OnRelationship", func(c *Ctx, nk string, it vocab.Item) string {
		_ = vocab.OnRelationship(it, func(p *vocab.Relationship) error { cbCheck(c, "OnRelationship", nk, p); return nil })
		return ""
	})
	add("OnTombstone", func(c *Ctx, nk string, it vocab.Item) string {
		_ = vocab.OnTombstone(it, func(p *vocab.Tombstone) error { cbCheck(c, "OnTombstone", nk, p); return nil })
		return ""
	})
	add("OnItem", func(c *Ctx, nk string, it vocab.Item) string {
		_ = vocab.OnItem(it, func(p vocab.Item) error { cbCheck(c, "OnItem", nk, p); return nil })
		return ""
	})
	add("On[*Object]", func(c *Ctx, nk string, it vocab.Item) string {
		_ = vocab.On[*vocab.Object](it, func(p **vocab.Object) error {
			if p != nil {
				cbCheck(c, "On[*Object]", nk, *p)
			}
			return nil
		})
		return ""
	})
	// ---- To* family: the result must be nil, an error, or readable and empty ----
	to := func(name string, f func(it vocab.Item) (any, error)) {
		add(name, func(c *Ctx, nk string, it vocab.Item) string {
			p, err := f(it)
			if err != nil {
				return ""
			}
			cbCheck(c, name, nk, p)
			return ""
		})
	}
	to("ToLink", func(it vocab.Item) (any, error) { return vocab.ToLink(it) })
	to("ToObject", func(it vocab.Item) (any, error) { return vocab.ToObject(it) })
	to("ToActivity", func(it vocab.Item) (any, error) { return vocab.ToActivity(it) })
	to("ToIntransitiveActivity", func(it vocab.Item) (any, error) { return vocab.ToIntransitiveActivity(it) })
	to("ToQuestion", func(it vocab.Item) (any, error) { return vocab.ToQuestion(it) })
	to("ToActor", func(it vocab.Item) (any, error) { return vocab.ToActor(it) })
	to("ToItemCollection", func(it vocab.Item) (any, error) { return vocab.ToItemCollection(it) })
	to("ToIRIs", func(it vocab.Item) (any, error) { return vocab.ToIRIs(it) })
	to("ToCollection", func(it vocab.Item) (any, error) { return vocab.ToCollection(it) })
	to("ToCollectionPage", func(it vocab.Item) (any, error) { return vocab.ToCollectionPage(it) })
	to("ToOrderedCollection", func(it vocab.Item) (any, error) { return vocab.ToOrderedCollection(it) })
	to("ToOrderedCollectionPage", func(it vocab.Item) (any, error) { return vocab.ToOrderedCollectionPage(it) })
	to("ToPlace", func(it vocab.Item) (any, error) { return vocab.ToPlace(it) })
	to("ToProfile", func(it vocab.Item) (any, error) { return vocab.ToProfile(it) })
	to("ToRelationship", func(it vocab.Item) (any, error) { return vocab.ToRelationship(it) })
	to("ToTombstone", func(it vocab.Item) (any, error) { return vocab.ToTombstone(it) })
	to("To[*Actor]", func(it vocab.Item) (any, error) {
		p, err := vocab.To[*vocab.Actor](it)
		if err != nil || p == nil {
			return nil, err
		}
		return *p, nil
	})
	// ---- predicates and equality ----
	add("IsNil", func(c *Ctx, nk string, it vocab.Item) string {
		if !vocab.IsNil(it) {
			return "IsNil is false"
		}
		return ""
	})
	add("NotEmpty", func(c *Ctx, nk string, it vocab.Item) string {
		if vocab.NotEmpty(it) {
			return "NotEmpty is true"
		}
		return ""
	})
	add("IsObject", func(c *Ctx, nk string, it vocab.Item) string {
		if it == nil && vocab.IsObject(it) {
			return "IsObject(nil) is true"
		}
		_ = vocab.IsObject(it)
		return ""
	})
	add("IsLink/IsIRI/IsIRIs/IsItemCollection", func(c *Ctx, nk string, it vocab.Item) string {
		_, _, _, _ = vocab.IsLink(it), vocab.IsIRI(it), vocab.IsIRIs(it), vocab.IsItemCollection(it)
		return ""
	})
	add("ItemsEqual(x,nil)", func(c *Ctx, nk string, it vocab.Item) string {
		if !vocab.ItemsEqual(it, nil) || !vocab.ItemsEqual(nil, it) {
			return "not equal to nil"
		}
		if !vocab.ItemsEqual(it, it) {
			return "not equal to itself"
		}
		return ""
	})
	add("ItemsEqual(x,non-nil)", func(c *Ctx, nk string, it vocab.Item) string {
		for _, o := range []vocab.Item{vocab.IRI("https://example.com/x"), &vocab.Object{ID: "https://example.com/x", Type: vocab.NoteType}, vocab.ItemCollection{vocab.IRI("https://example.com/x")}, &vocab.Link{Href: "https://example.com/x"}} {
			if vocab.ItemsEqual(it, o) || vocab.ItemsEqual(o, it) {
				return fmt.Sprintf("equal to the non-nil %T", o)
			}
		}
		return ""
	})
	// ---- flatten, recipients, deref, order ----
	add("Flatten", func(c *Ctx, nk string, it vocab.Item) string {
		if r := vocab.Flatten(it); !vocab.IsNil(r) {
			return fmt.Sprintf("returned non-nil %T", r)
		}
		return ""
	})
	add("FlattenProperties", func(c *Ctx, nk string, it vocab.Item) string {
		if r := vocab.FlattenProperties(it); !vocab.IsNil(r) {
			return fmt.Sprintf("returned non-nil %T", r)
		}
		return ""
	})
	add("FlattenToIRI", func(c *Ctx, nk string, it vocab.Item) string {
		if r := vocab.FlattenToIRI(it); !vocab.IsNil(r) {
			return fmt.Sprintf("returned non-nil %T", r)
		}
		return ""
	})
	add("CleanRecipients", func(c *Ctx, nk string, it vocab.Item) string {
		if r := vocab.CleanRecipients(it); !vocab.IsNil(r) {
			return fmt.Sprintf("returned non-nil %T", r)
		}
		return ""
	})
	add("DerefItem", func(c *Ctx, nk string, it vocab.Item) string {
		if r := vocab.DerefItem(it); len(r) != 0 {
			return fmt.Sprintf("returned %d items", len(r))
		}
		return ""
	})
	add("ItemOrderTimestamp", func(c *Ctx, nk string, it vocab.Item) string {
		o := &vocab.Object{ID: "https://example.com/x", Type: vocab.NoteType}
		if vocab.ItemOrderTimestamp(it, it) {
			return "less(nil,nil) is true"
		}
		_ = vocab.ItemOrderTimestamp(it, o)
		_ = vocab.ItemOrderTimestamp(o, it)
		return ""
	})
	// ---- collections: Contains/Append/Remove with a nil-like argument ----
	for _, ck := range colKinds {
		ck := ck
		add(ck.Name+".Contains/Append/Remove", func(c *Ctx, nk string, it vocab.Item) string {
			pool := newPool()
			col := ck.New(vocab.ItemCollection{pool[0], pool[1]})
			if col.Contains(it) {
				return "Contains(nil-like) is true"
			}
			_ = col.Append(it)
			_ = vocab.OnItemCollection(col, func(ic *vocab.ItemCollection) error { ic.Remove(it); return nil })
			if !col.Contains(pool[0]) || !col.Contains(pool[1]) {
				return "a member was lost"
			}
			if n := col.Count(); n != 2 && n != 3 {
				return fmt.Sprintf("Count()=%d after Append/Remove of a nil-like item", n)
			}
			return ""
		})
	}
	add("ItemCollection.ItemsMatch", func(c *Ctx, nk string, it vocab.Item) string {
		l := vocab.ItemCollection{vocab.IRI("https://example.com/x")}
		_ = l.ItemsMatch(it)
		return ""
	})
	// ---- encoders ----
	add("MarshalJSON", func(c *Ctx, nk string, it vocab.Item) string {
		b, err := vocab.MarshalJSON(it)
		if err == nil && len(b) > 0 && string(b) != "null" && string(b) != `""` {
			return fmt.Sprintf("wrote %q", clipS(string(b), 80))
		}
		return ""
	})
	add("GobEncode", func(c *Ctx, nk string, it vocab.Item) string {
		b, err := vocab.GobEncode(it)
		if err == nil && len(b) > 0 {
			return fmt.Sprintf("wrote %d bytes", len(b))
		}
		return ""
	})
	add("CopyItemProperties", func(c *Ctx, nk string, it vocab.Item) string {
		o := &vocab.Object{ID: "https://example.com/x", Type: vocab.NoteType}
		if _, err := vocab.CopyItemProperties(it, o); err == nil {
			return "no error for a nil-like to"
		}
		if _, err := vocab.CopyItemProperties(o, it); err == nil {
			return "no error for a nil-like from"
		}
		return ""
	})
	add("CollectionPath.IRI/Of/AddTo", func(c *Ctx, nk string, it vocab.Item) string {
		_ = vocab.Inbox.IRI(it)
		if r := vocab.Inbox.Of(it); !vocab.IsNil(r) {
			return "Of returned a non-nil item"
		}
		if _, ok := vocab.Likes.AddTo(it); ok {
			return "AddTo reports success"
		}
		return ""
	})
	add("fmt %v %s", func(c *Ctx, nk string, it vocab.Item) string {
		_ = fmt.Sprintf("%v %s %+v", it, it, it)
		return ""
	})
	return h
}

// nil-like as a member / property of an otherwise valid value, then the operations users run on such values
type nilHost struct {
	Name  string
	Build func(it vocab.Item) vocab.Item
}

var nilHosts = []nilHost{
	{"Object.tag[i]", func(it vocab.Item) vocab.Item {
		return &vocab.Object{ID: "https://example.com/h", Type: vocab.NoteType, Tag: vocab.ItemCollection{vocab.IRI("https://example.com/t1"), it, &vocab.Object{ID: "https://example.com/t2", Type: vocab.NoteType}}}
	}},
	{"Object.to[i]", func(it vocab.Item) vocab.Item {
		return &vocab.Object{ID: "https://example.com/h", Type: vocab.NoteType, To: vocab.ItemCollection{it, vocab.IRI("https://example.com/r1")}, CC: vocab.ItemCollection{vocab.IRI("https://example.com/r1"), it}}
	}},
	{"OrderedCollection.orderedItems[i]", func(it vocab.Item) vocab.Item {
		return &vocab.OrderedCollection{ID: "https://example.com/h", Type: vocab.OrderedCollectionType, OrderedItems: vocab.ItemCollection{vocab.IRI("https://example.com/m1"), it}}
	}},
	{"Collection.items[i]", func(it vocab.Item) vocab.Item {
		return &vocab.Collection{ID: "https://example.com/h", Type: vocab.CollectionType, Items: vocab.ItemCollection{it, vocab.IRI("https://example.com/m1")}}
	}},
	{"Object.tag[9 of 12]", func(it vocab.Item) vocab.Item {
		l := vocab.ItemCollection{}
		for i := 0; i < 12; i++ {
			if i == 9 {
				l = append(l, it)
			} else {
				l = append(l, vocab.IRI(fmt.Sprintf("https://example.com/t/%d", i)))
			}
		}
		return &vocab.Object{ID: "https://example.com/h", Type: vocab.NoteType, Tag: l, To: append(vocab.ItemCollection{}, l...)}
	}},
	{"Object.tag[nil-like first, then members without an id]", func(it vocab.Item) vocab.Item {
		noid := func(n string) vocab.Item {
			return &vocab.Object{Type: vocab.NoteType, Name: vocab.NaturalLanguageValues{{Ref: vocab.NilLangRef, Value: vocab.Content(n)}}}
		}
		return &vocab.Object{ID: "https://example.com/h", Type: vocab.NoteType, Tag: vocab.ItemCollection{it, noid("one"), &vocab.Link{Type: vocab.MentionType, Name: vocab.NaturalLanguageValues{{Ref: vocab.NilLangRef, Value: vocab.Content("@x")}}}, noid("two"), it},
			Attachment: vocab.ItemCollection{noid("three"), it, vocab.IRI("https://example.com/a")}}
	}},
	{"Actor.streams[only nil-likes]", func(it vocab.Item) vocab.Item {
		return &vocab.Actor{ID: "https://example.com/h", Type: vocab.PersonType, Inbox: vocab.IRI("https://example.com/h/inbox"), Streams: vocab.ItemCollection{it, it}, Tag: vocab.ItemCollection{it}}
	}},
	{"Collection.items[only nil-likes]", func(it vocab.Item) vocab.Item {
		return &vocab.OrderedCollection{ID: "https://example.com/h", Type: vocab.OrderedCollectionType, OrderedItems: vocab.ItemCollection{it}, To: vocab.ItemCollection{it, it}, Name: vocab.NaturalLanguageValues{{Ref: vocab.NilLangRef, Value: vocab.Content("kept")}}}
	}},
	{"Object.attachment", func(it vocab.Item) vocab.Item {
		return &vocab.Object{ID: "https://example.com/h", Type: vocab.NoteType, Attachment: it, AttributedTo: it, Replies: it, URL: it}
	}},
	{"Activity.object+actor+target", func(it vocab.Item) vocab.Item {
		return &vocab.Activity{ID: "https://example.com/h", Type: vocab.CreateType, Object: it, Actor: it, Target: it, To: vocab.ItemCollection{vocab.IRI("https://example.com/r1")}}
	}},
	{"Block.object", func(it vocab.Item) vocab.Item {
		return &vocab.Activity{ID: "https://example.com/h", Type: vocab.BlockType, Object: it, To: vocab.ItemCollection{vocab.IRI("https://example.com/r1"), it}}
	}},
	{"Question.oneOf+actor", func(it vocab.Item) vocab.Item {
		return &vocab.Question{ID: "https://example.com/h", Type: vocab.QuestionType, OneOf: it, Actor: it, AnyOf: vocab.ItemCollection{it}}
	}},
	{"Actor.inbox+streams[i]", func(it vocab.Item) vocab.Item {
		return &vocab.Actor{ID: "https://example.com/h", Type: vocab.PersonType, Inbox: it, Streams: vocab.ItemCollection{it}, Endpoints: &vocab.Endpoints{SharedInbox: it}}
	}},
	{"top-level list member", func(it vocab.Item) vocab.Item {
		return vocab.ItemCollection{vocab.IRI("https://example.com/m1"), it, &vocab.Object{ID: "https://example.com/m2", Type: vocab.NoteType}}
	}},
	{"Relationship.subject+object", func(it vocab.Item) vocab.Item {
		return &vocab.Relationship{ID: "https://example.com/h", Type: vocab.RelationshipType, Subject: it, Object: it, Relationship: it}
	}},
	{"Link.preview", func(it vocab.Item) vocab.Item {
		return &vocab.Link{ID: "https://example.com/h", Type: vocab.LinkType, Href: "https://example.com/x", Preview: it}
	}},
}

// one host per item-valued property of every struct kind, holding the nil-like in that property ONLY (a comparison that walks
// the properties in order reaches it only when everything before it is equal)
func init() {
	for _, k := range vmodel.Kinds {
		k := k
		for _, f := range k.Fields() {
			f := f
			if f.Name == "ID" || f.Name == "Type" || (f.Type.Kind() != reflect.Interface && f.Type != vmodel.IcT) {
				continue
			}
			// fields that every kind shares with Object are driven on Object (and on Activity, whose comparison is separate)
			if _, inObject := vmodel.Kinds[0].FieldByTerm(f.Term); inObject && k.Name != "Object" && k.Name != "Activity" {
				continue
			}
			suffix := " only"
			if f.Type == vmodel.IcT {
				suffix = " only (list)" // a list with a nil member is not itself nil: its equality with the unset list is not judged
			}
			nilHosts = append(nilHosts, nilHost{fmt.Sprintf("%s.%s%s", k.Name, f.Term, suffix), func(it vocab.Item) vocab.Item {
				p := reflect.ValueOf(k.New())
				p.Elem().FieldByName("ID").Set(reflect.ValueOf(vocab.IRI("https://example.com/h")))
				p.Elem().FieldByName("Type").Set(reflect.ValueOf(vocab.ActivityVocabularyType(k.SpecificType())))
				fv := p.Elem().Field(f.Index)
				if f.Type == vmodel.IcT {
					fv.Set(reflect.ValueOf(vocab.ItemCollection{it}))
				} else if it != nil {
					fv.Set(reflect.ValueOf(it))
				}
				return p.Interface().(vocab.Item)
			}})
		}
	}
}

// long lists with the nil-like member at the head, in the middle and at the end: sizes past the usual thresholds (16, 32, 64, 256)
func init() {
	for _, n := range []int{17, 33, 70, 300} {
		for _, pos := range []string{"first", "middle", "last"} {
			n, pos := n, pos
			mk := func(it vocab.Item) vocab.ItemCollection {
				at := map[string]int{"first": 0, "middle": n / 2, "last": n - 1}[pos]
				l := make(vocab.ItemCollection, 0, n)
				for i := 0; i < n; i++ {
					switch {
					case i == at:
						l = append(l, it)
					case i%3 == 1:
						l = append(l, &vocab.Object{ID: vocab.IRI(fmt.Sprintf("https://example.com/long/%d", i)), Type: vocab.NoteType})
					default:
						l = append(l, vocab.IRI(fmt.Sprintf("https://example.com/long/%d", i)))
					}
				}
				return l
			}
			nilHosts = append(nilHosts,
				nilHost{fmt.Sprintf("Object.tag+cc[%s of %d]", pos, n), func(it vocab.Item) vocab.Item {
					return &vocab.Object{ID: "https://example.com/h", Type: vocab.NoteType, Tag: mk(it), CC: mk(it)}
				}},
				nilHost{fmt.Sprintf("OrderedCollection.orderedItems[%s of %d]", pos, n), func(it vocab.Item) vocab.Item {
					return &vocab.OrderedCollection{ID: "https://example.com/h", Type: vocab.OrderedCollectionType, OrderedItems: mk(it)}
				}},
				nilHost{fmt.Sprintf("top-level list[%s of %d]", pos, n), func(it vocab.Item) vocab.Item { return mk(it) }})
		}
	}
}

func pruneEmptyLists(n *vmodel.Node) *vmodel.Node {
	if n == nil {
		return nil
	}
	if n.Kind == "list" {
		var kept []*vmodel.Node
		for _, e := range n.List {
			e = pruneEmptyLists(e)
			if e == nil || (e.Kind == "list" && len(e.List) == 0) {
				continue
			}
			kept = append(kept, e)
		}
		if len(kept) == 0 {
			return nil
		}
		return &vmodel.Node{Kind: "list", List: kept}
	}
	if n.Props != nil {
		out := &vmodel.Node{Kind: n.Kind, GoT: n.GoT, S: n.S, Props: map[string]*vmodel.Node{}}
		for k, v := range n.Props {
			if p := pruneEmptyLists(v); p != nil {
				if p.Kind == "list" && len(p.List) == 1 {
					p = p.List[0] // one survivor in a single-item position
				}
				out.Props[k] = p
			}
		}
		return out
	}
	return n
}

// withoutNilLikes returns x with every nil-like member removed: interface-typed properties holding one are unset, lists lose
// those members (an emptied list becomes unset), recursively through embedded values.
func withoutNilLikes(x vocab.Item) vocab.Item {
	isNilLike := func(v reflect.Value) bool {
		if !v.IsValid() {
			return true
		}
		if v.Kind() == reflect.Interface {
			if v.IsNil() {
				return true
			}
			v = v.Elem()
		}
		return v.Kind() == reflect.Pointer && v.IsNil()
	}
	var walk func(v reflect.Value)
	cleanList := func(l vocab.ItemCollection) vocab.ItemCollection {
		var out vocab.ItemCollection
		for i := range l {
			ev := reflect.ValueOf(&l).Elem().Index(i)
			if isNilLike(ev) {
				continue
			}
			walk(ev)
			out = append(out, l[i])
		}
		return out
	}
	walk = func(v reflect.Value) {
		switch v.Kind() {
		case reflect.Interface:
			if v.IsNil() {
				return
			}
			if l, ok := v.Interface().(vocab.ItemCollection); ok {
				if c := cleanList(l); len(c) > 0 {
					v.Set(reflect.ValueOf(c))
				} else {
					v.Set(reflect.Zero(v.Type()))
				}
				return
			}
			walk(v.Elem())
		case reflect.Pointer:
			if !v.IsNil() {
				walk(v.Elem())
			}
		case reflect.Struct:
			if v.Type() == vmodel.TimeT {
				return
			}
			for i := 0; i < v.NumField(); i++ {
				f := v.Field(i)
				if !v.Type().Field(i).IsExported() || !f.CanSet() {
					continue
				}
				switch {
				case f.Type() == vmodel.IcT:
					f.Set(reflect.ValueOf(cleanList(f.Interface().(vocab.ItemCollection))))
				case f.Kind() == reflect.Interface && isNilLike(f):
					f.Set(reflect.Zero(f.Type()))
				case f.Kind() == reflect.Pointer && f.IsNil():
				default:
					walk(f)
				}
			}
		}
	}
	if l, ok := x.(vocab.ItemCollection); ok {
		return cleanList(l)
	}
	if x == nil || isNilLike(reflect.ValueOf(x)) {
		return nil
	}
	walk(reflect.ValueOf(x))
	return x
}

type hostOp struct {
	Name string
	Run  func(host vocab.Item)
}

var hostOps = []hostOp{
	{"MarshalJSON", func(h vocab.Item) { _, _ = vocab.MarshalJSON(h) }},
	{"GobEncode", func(h vocab.Item) { _, _ = vocab.GobEncode(h) }},
	{"ItemsEqual(v,v)", func(h vocab.Item) { _ = vocab.ItemsEqual(h, h) }},
	{"ItemsEqual(v,copy)", func(h vocab.Item) { _ = vocab.ItemsEqual(h, vmodel.DeepCopy(h).(vocab.Item)) }},
	{"Recipients", func(h vocab.Item) {
		if r, ok := h.(vocab.HasRecipients); ok {
			_ = r.Recipients()
		}
	}},
	{"Clean", func(h vocab.Item) {
		if r, ok := h.(vocab.HasRecipients); ok {
			r.Clean()
		}
	}},
	{"FlattenProperties", func(h vocab.Item) { _ = vocab.FlattenProperties(h) }},
	{"Flatten", func(h vocab.Item) { _ = vocab.Flatten(h) }},
	{"NotEmpty/IsNil", func(h vocab.Item) { _, _ = vocab.NotEmpty(h), vocab.IsNil(h) }},
	{"CollectionPath.IRI/Of", func(h vocab.Item) {
		for _, cp := range []vocab.CollectionPath{vocab.Inbox, vocab.Outbox, vocab.Followers, vocab.Following, vocab.Liked, vocab.Likes, vocab.Shares, vocab.Replies} {
			_, _ = cp.IRI(h), cp.Of(h)
		}
	}},
	{"fmt %v", func(h vocab.Item) { _ = fmt.Sprintf("%v %s", h, h) }},
	{"DerefItem", func(h vocab.Item) { _ = vocab.DerefItem(h) }},
	{"OnObject", func(h vocab.Item) { _ = vocab.OnObject(h, func(*vocab.Object) error { return nil }) }},
	{"OnCollectionIntf.Contains", func(h vocab.Item) {
		_ = vocab.OnCollectionIntf(h, func(c vocab.CollectionInterface) error {
			_ = c.Contains(vocab.IRI("https://example.com/m1"))
			_ = c.Count()
			return nil
		})
	}},
	{"Inbox.Of", func(h vocab.Item) { _ = vocab.Inbox.Of(h) }},
}

// exportedItemHelpers scans the library source for exported functions with an item-typed parameter.
func exportedItemHelpers(dir string) []string {
	fset := token.NewFileSet()
	pkgs, err := parser.ParseDir(fset, dir, func(fi os.FileInfo) bool { return !strings.HasSuffix(fi.Name(), "_test.go") }, 0)
	if err != nil {
		return nil
	}
	itemTypes := map[string]bool{"Item": true, "LinkOrIRI": true, "ObjectOrLink": true}
	var out []string
	for _, p := range pkgs {
		for _, f := range p.Files {
			for _, d := range f.Decls {
				fd, ok := d.(*ast.FuncDecl)
				if !ok || !fd.Name.IsExported() {
					continue
				}
				takes := false
				for _, par := range fd.Type.Params.List {
					t := par.Type
					if e, ok := t.(*ast.Ellipsis); ok {
						t = e.Elt
					}
					if id, ok := t.(*ast.Ident); ok && itemTypes[id.Name] {
						takes = true
					}
				}
				if !takes {
					continue
				}
				name := fd.Name.Name
				if fd.Recv != nil && len(fd.Recv.List) > 0 {
					rt := fd.Recv.List[0].Type
					if s, ok := rt.(*ast.StarExpr); ok {
						rt = s.X
					}
					if id, ok := rt.(*ast.Ident); ok {
						if !id.IsExported() {
							continue
						}
						name = id.Name + "." + name
					}
				}
				out = append(out, name)
			}
		}
	}
	sort.Strings(out)
	return out
}

func init() {
	helpers := nilHelpers()
	nl := []nilLike{{"untyped-nil", nil}}
	tn := typedNils()
	for _, n := range typedNilNames {
		nl = append(nl, nilLike{"typed-nil " + n, tn[n]})
	}
	// reported, not judged
	extra := []nilLike{{"(*IRI)(nil)", (*vocab.IRI)(nil)}, {"(*ItemCollection)(nil)", (*vocab.ItemCollection)(nil)}, {"(*IRIs)(nil)", (*vocab.IRIs)(nil)}}
	Register(&Prop{
		ID: "C20",
		Rule: fmt.Sprintf("the helper x nil-kind matrix, enumerated in full on every run: %d helpers (the On*/To* families incl. OnCollectionIntf, On[T], To[T]; predicates; ItemsEqual; Flatten*; CleanRecipients; DerefItem; ItemOrderTimestamp; Contains/Append/Remove on each collection kind; both encoders; CopyItemProperties; CollectionPath helpers; formatting) x {untyped nil, typed nil pointer of each of the 14 structs}; "+
			"then the nil-like as a member of tag/to/items/streams and as the value of attachment/object/actor/target/oneOf/inbox/preview of %d otherwise valid host values x %d operations (both encoders, equality, Recipients, Clean, Flatten*, formatting, deref, On*); oracle: no panic (process faults are attributed by the supervisor), IsNil true, NotEmpty false, equal to nil and to no non-nil item, callbacks receive nil or a readable empty value, results neutral or an error; run on the plain and the checkptr build; distinct = matrix cell; non-trivial = typed-nil cells",
			len(helpers), len(nilHosts), len(hostOps)),
		Builds: func(tier string) []string {
			if tier == "thorough" {
				return []string{"plain", "ckptr", "race"}
			}
			return []string{"plain", "ckptr"}
		},
		Layers: func(tier string) []Layer {
			return []Layer{
				{Name: "top-level", N: len(helpers) * len(nl), Exhaustive: true, Run: func(c *Ctx, idx int) {
					h := helpers[idx/len(nl)]
					n := nl[idx%len(nl)]
					c.Distinct(h.Name+"|"+n.Name, n.It != nil)
					c.Count("cells", 1)
					if idx%97 == 0 {
						c.Sample(map[string]any{"helper": h.Name, "nil_kind": n.Name})
					}
					c.Pending(h.Name + " " + n.Name)
					var bad string
					if c.Guard(h.Name, func() { bad = h.Call(c, n.Name, n.It) }) {
						return
					}
					c.Eval(1)
					if bad != "" {
						c.Fail(fmt.Sprintf("nil|%s|%s|not-neutral", h.Name, nilClass2(n.Name)), fmt.Sprintf("%s(%s): %s", h.Name, n.Name, bad), map[string]any{"helper": h.Name, "nil": n.Name})
					}
				}},
				{Name: "embedded", N: len(nilHosts) * len(hostOps) * len(nl), Exhaustive: true, Run: func(c *Ctx, idx int) {
					n := nl[idx%len(nl)]
					k := idx / len(nl)
					op := hostOps[k%len(hostOps)]
					host := nilHosts[k/len(hostOps)]
					c.Distinct(host.Name+"|"+op.Name+"|"+n.Name, true)
					c.Count("embedded-cells", 1)
					if idx%211 == 0 {
						c.Sample(map[string]any{"host": host.Name, "operation": op.Name, "nil_kind": n.Name})
					}
					c.Pending(host.Name + " " + op.Name + " " + n.Name)
					var hv vocab.Item
					if c.Guard("build "+host.Name, func() { hv = host.Build(n.It) }) {
						return
					}
					// signature: entry = operation on host position (the Guard names it)
					c.Guard(op.Name+" on "+host.Name, func() { op.Run(hv) })
					c.Eval(1)
					if op.Name == "ItemsEqual(v,copy)" && strings.HasSuffix(host.Name, " only") {
						// "equality treats it as nil": the value holding the nil-like in one property equals the same value with
						// that property unset, in both orders
						var with, without vocab.Item
						if !c.Guard("build "+host.Name, func() { with = host.Build(n.It); without = withoutNilLikes(host.Build(n.It)) }) {
							var ab, ba bool
							if !c.Guard("ItemsEqual(v,without) on "+host.Name, func() { ab = vocab.ItemsEqual(with, without); ba = vocab.ItemsEqual(without, with) }) {
								c.Count("nil-equals-unset-comparisons", 2)
								if !ab || !ba {
									c.Fail(fmt.Sprintf("nil|ItemsEqual|%s|nil-not-equal-to-unset", strings.SplitN(host.Name, ".", 2)[0]), fmt.Sprintf("%s holding %s: ItemsEqual(with, unset) = %v, ItemsEqual(unset, with) = %v; a nil-like property is nothing", host.Name, n.Name, ab, ba),
										map[string]any{"host": host.Name, "nil": n.Name})
								}
							}
						}
					}
					if op.Name == "ItemsEqual(v,copy)" {
						// and against the same value holding a real item where this one holds the nil-like, in both orders
						var filled vocab.Item
						if !c.Guard("build "+host.Name, func() { filled = host.Build(vocab.IRI("https://example.com/real/member")) }) {
							c.Guard("ItemsEqual(v,filled) on "+host.Name, func() { _ = vocab.ItemsEqual(hv, filled) })
							c.Guard("ItemsEqual(filled,v) on "+host.Name, func() { _ = vocab.ItemsEqual(filled, hv) })
							c.Count("nil-vs-filled-comparisons", 2)
						}
					}
					// "nothing" means nothing: both encoders write the host exactly as they write it with the nil-like members taken
					// out (a nil-like in a property = the property unset, in a list = one member fewer)
					if op.Name == "MarshalJSON" || op.Name == "GobEncode" {
						var fresh, cleaned vocab.Item
						if c.Guard("build "+host.Name, func() { fresh = host.Build(n.It); cleaned = withoutNilLikes(host.Build(n.It)) }) {
							return
						}
						var b1, b2 []byte
						var e1, e2 error
						if c.Guard(op.Name+" on "+host.Name, func() {
							if op.Name == "MarshalJSON" {
								b1, e1 = vocab.MarshalJSON(fresh)
								b2, e2 = vocab.MarshalJSON(cleaned)
							} else {
								b1, e1 = vocab.GobEncode(fresh)
								b2, e2 = vocab.GobEncode(cleaned)
							}
						}) {
							return
						}
						c.Count("nothing-comparisons", 1)
						same := (e1 == nil) == (e2 == nil)
						if same && e1 == nil {
							// what was written is compared as what it says: decoded, with empty lists pruned on both sides (a list that held
							// only nil-likes may be written as an empty array, and a nil member is stored by gob as an empty entry that reads
							// back as an empty list - the library itself counts those as nil)
							dec := vocab.GobDecode
							if op.Name == "MarshalJSON" {
								dec = func(b []byte) (vocab.Item, error) { return vocab.UnmarshalJSON(b) }
							}
							d1, err1 := dec(b1)
							d2, err2 := dec(b2)
							same = (err1 == nil) == (err2 == nil) && (len(b1) == 0) == (len(b2) == 0) &&
								len(vmodel.Diff(pruneEmptyLists(vmodel.Canon(d1, vmodel.Exact)), pruneEmptyLists(vmodel.Canon(d2, vmodel.Exact)))) == 0
						}
						if !same {
							c.Fail(fmt.Sprintf("nil|%s|%s|not-nothing", op.Name, strings.SplitN(host.Name, "[", 2)[0]), fmt.Sprintf("%s of %s with %s differs from the same value without the nil-like members", op.Name, host.Name, n.Name),
								map[string]any{"host": host.Name, "nil": n.Name, "with": clipB(b1), "without": clipB(b2), "err_with": fmt.Sprint(e1), "err_without": fmt.Sprint(e2)})
						}
					}
				}},
				{Name: "reported-only", N: len(helpers) * len(extra), Exhaustive: true, Run: func(c *Ctx, idx int) {
					h := helpers[idx/len(extra)]
					n := extra[idx%len(extra)]
					func() {
						defer func() {
							if r := recover(); r != nil {
								c.Count("reported-only-panics", 1)
							}
						}()
						_ = h.Call(&Ctx{counters: map[string]int64{}, fps: map[uint64]struct{}{}, nontriv: map[uint64]struct{}{}, perSig: map[string]int{}}, n.Name, n.It)
					}()
					c.Eval(1)
				}},
			}
		},
		Finish: func(c *Ctx) {
			if c.Shard != 0 {
				return
			}
			dir := os.Getenv("VERIF_REPO")
			if dir == "" {
				dir = "/repo"
			}
			found := exportedItemHelpers(filepath.Clean(dir))
			c.Count("source-helpers-found", int64(len(found)))
		},
		Floors: func(tier string) map[string]int64 {
			return map[string]int64{"cells": int64(len(helpers) * len(nl)), "embedded-cells": int64(len(nilHosts) * len(hostOps) * len(nl))}
		},
		Assumptions: []string{
			"the statement's domain is the untyped nil and nil pointers to the 14 vocabulary structs; nil *IRI / *ItemCollection / *IRIs are driven but only counted",
			"the helper table is maintained by hand; the number of exported functions with an item-typed parameter found in the source is reported next to it",
		},
	})
}
