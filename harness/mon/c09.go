package mon

import (
	"fmt"
	"reflect"
	"strings"
	"time"

	vocab "github.com/go-ap/activitypub"

	"verif/harness/vmodel"
)

// C09: item equality is reflexive, nil-correct and identity-sensitive.

func itemsEqual(c *Ctx, entry string, a, b vocab.Item) (res bool, ok bool) {
	c.Pending(entry)
	if c.Guard("ItemsEqual", func() { res = vocab.ItemsEqual(a, b) }) {
		return false, false
	}
	c.Eval(1)
	return res, true
}

func typedNils() map[string]vocab.Item {
	return map[string]vocab.Item{
		"*Object": (*vocab.Object)(nil), "*Actor": (*vocab.Actor)(nil), "*Activity": (*vocab.Activity)(nil),
		"*IntransitiveActivity": (*vocab.IntransitiveActivity)(nil), "*Question": (*vocab.Question)(nil),
		"*Collection": (*vocab.Collection)(nil), "*CollectionPage": (*vocab.CollectionPage)(nil),
		"*OrderedCollection": (*vocab.OrderedCollection)(nil), "*OrderedCollectionPage": (*vocab.OrderedCollectionPage)(nil),
		"*Place": (*vocab.Place)(nil), "*Profile": (*vocab.Profile)(nil), "*Relationship": (*vocab.Relationship)(nil),
		"*Tombstone": (*vocab.Tombstone)(nil), "*Link": (*vocab.Link)(nil),
	}
}

var typedNilNames = []string{"*Object", "*Actor", "*Activity", "*IntransitiveActivity", "*Question", "*Collection", "*CollectionPage",
	"*OrderedCollection", "*OrderedCollectionPage", "*Place", "*Profile", "*Relationship", "*Tombstone", "*Link"}

type nilLike struct {
	Name string
	It   vocab.Item
}

func nilLikes() []nilLike {
	out := []nilLike{{"untyped-nil", nil}, {"NilIRI", vocab.NilIRI}, {"EmptyIRI", vocab.EmptyIRI}}
	tn := typedNils()
	for _, n := range typedNilNames {
		out = append(out, nilLike{"typed-nil " + n, tn[n]})
	}
	return out
}

// identity mutations -----------------------------------------------------------------------------

type identCase struct {
	Kind  vmodel.StructKind
	Type  string
	What  string // id-host id-path id-query type field:<term>:<shape>
	Field vmodel.Field
	Shape string
}

var coreExcluded = map[string]bool{"id": true, "type": true, "mediaType": true, "source": true}

func identCases() []identCase {
	var out []identCase
	obj := vmodel.Kinds[0]
	for _, k := range vmodel.Kinds {
		if k.Name == "Link" {
			continue
		}
		types := []string{k.SpecificType()}
		if len(k.Types) > 1 {
			types = append(types, k.Types[0]) // the generic name of the family
		}
		for _, typ := range types {
			for _, w := range []string{"id-host", "id-path", "id-query", "type"} {
				if w == "type" && len(k.Types) == 1 {
					continue
				}
				out = append(out, identCase{Kind: k, Type: typ, What: w})
			}
			for _, f := range obj.Fields() {
				if coreExcluded[f.Term] {
					continue
				}
				kf, _ := k.FieldByTerm(f.Term)
				for _, sh := range identShapes(kf.Type) {
					out = append(out, identCase{Kind: k, Type: typ, What: "field", Field: kf, Shape: sh})
				}
			}
			if k.Fam == "activity" {
				for _, term := range []string{"actor", "object", "target", "result", "origin", "instrument"} {
					kf, _ := k.FieldByTerm(term)
					for _, sh := range identShapes(kf.Type) {
						out = append(out, identCase{Kind: k, Type: typ, What: "field", Field: kf, Shape: sh})
					}
				}
			}
		}
		// the activity properties under EVERY vocabulary name of the transitive activity kind (a dispatcher keyed on a table of
		// names may treat one name differently); the statement speaks of transitive activities only
		if k.Fam == "activity" {
			for _, typ := range k.Types {
				for _, term := range []string{"actor", "object", "target", "result", "origin", "instrument"} {
					kf, ok := k.FieldByTerm(term)
					if !ok {
						continue
					}
					out = append(out, identCase{Kind: k, Type: typ, What: "field", Field: kf, Shape: "iri"})
				}
			}
		}
	}
	return out
}

func identShapes(t reflect.Type) []string {
	switch {
	case t.Kind() == reflect.Interface:
		// after '|': the copy keeps everything (the id too) and differs in that one detail of the link
		return []string{"iri", "obj:Object", "obj:Actor", "link-full", "link-full|href", "link-full|name", "link-href", "list2", "iris2"}
	case t == vmodel.IcT:
		return []string{"l:iri", "l:obj:Object", "l2", "l:link-full|href", "l:link-full|name", "l3|+member", "l3|-member", "l2|emptied"}
	case t == vmodel.NlvT:
		// "|tag": the same text under another language tag
		return []string{"nlv1u", "nlv1t", "nlv2|tag", "nlv1t|tag", "nlv2|+entry"}
	case t == vmodel.TimeT:
		return []string{"time-s", "time-s|+1ns", "time-s|+300ms", "time-s|-200ms"}
	case t == vmodel.DurT:
		return []string{"dur-pos"}
	}
	return nil
}

// baseShape strips the "how the copy differs" suffix of an identity shape
func baseShape(sh string) string {
	if i := strings.IndexByte(sh, '|'); i >= 0 {
		return sh[:i]
	}
	return sh
}

var allIdentCases = identCases()

func buildIdent(ic identCase, idx int) (x, y vocab.Item, desc string) {
	gx := vmodel.NewGen(newRand(int64(idx)*31 + 5))
	p := ic.Kind.New()
	v := reflect.ValueOf(p).Elem()
	v.FieldByName("ID").Set(reflect.ValueOf(vocab.IRI("https://example.com/users/jdoe/1?x=1")))
	v.FieldByName("Type").Set(reflect.ValueOf(vocab.ActivityVocabularyType(ic.Type)))
	v.FieldByName("Name").Set(reflect.ValueOf(vocab.NaturalLanguageValues{{Ref: vocab.NilLangRef, Value: vocab.Content("same name")}}))
	if ic.What == "field" {
		gx.SetShape(v.Field(ic.Field.Index), ic.Field.Type, baseShape(ic.Shape))
	}
	q := vmodel.DeepCopy(p)
	w := reflect.ValueOf(q).Elem()
	switch ic.What {
	case "id-host":
		w.FieldByName("ID").Set(reflect.ValueOf(vocab.IRI("https://other.example/users/jdoe/1?x=1")))
	case "id-path":
		w.FieldByName("ID").Set(reflect.ValueOf(vocab.IRI("https://example.com/users/jdoe/2?x=1")))
	case "id-query":
		w.FieldByName("ID").Set(reflect.ValueOf(vocab.IRI("https://example.com/users/jdoe/1?x=2")))
	case "type":
		other := ic.Kind.Types[1]
		if other == ic.Type {
			other = ic.Kind.Types[2%len(ic.Kind.Types)]
			if other == ic.Type {
				other = ic.Kind.Types[0]
			}
		}
		w.FieldByName("Type").Set(reflect.ValueOf(vocab.ActivityVocabularyType(other)))
	case "field":
		gy := vmodel.NewGen(newRand(int64(idx)*31 + 6))
		gy.Base = "https://other.example"
		// a different, non-empty value of the same shape
		setDifferent(gy, w.Field(ic.Field.Index), ic.Field.Type, ic.Shape)
	}
	desc = fmt.Sprintf("%s[%s] %s", ic.Kind.Name, ic.Type, ic.What)
	if ic.What == "field" {
		desc += " " + ic.Field.Term + "=" + ic.Shape
	}
	return p.(vocab.Item), q.(vocab.Item), desc
}

func setDifferent(g *vmodel.Gen, fv reflect.Value, t reflect.Type, shape string) {
	how := ""
	if i := strings.IndexByte(shape, '|'); i >= 0 {
		how = shape[i+1:]
	}
	changeLink := func(it vocab.Item) vocab.Item {
		l := *(it.(*vocab.Link))
		if how == "href" {
			l.Href = vocab.IRI(string(l.Href) + "/elsewhere")
		} else {
			l.Name = vocab.NaturalLanguageValues{{Ref: vocab.NilLangRef, Value: vocab.Content(string(l.Name.First().Value) + " (changed)")}}
		}
		return &l
	}
	switch {
	case t == vmodel.NlvT && how == "tag":
		old := fv.Interface().(vocab.NaturalLanguageValues)
		n := append(vocab.NaturalLanguageValues{}, old...)
		n[0] = vocab.LangRefValue{Ref: vocab.NilLangRef, Value: append(vocab.Content{}, old[0].Value...)}
		fv.Set(reflect.ValueOf(n))
	case t == vmodel.NlvT && how == "+entry":
		old := fv.Interface().(vocab.NaturalLanguageValues)
		n := append(append(vocab.NaturalLanguageValues{}, old...), vocab.LangRefValue{Ref: "tlh", Value: vocab.Content("one more translation")})
		fv.Set(reflect.ValueOf(n))
	case t == vmodel.IcT && (how == "href" || how == "name"):
		old := fv.Interface().(vocab.ItemCollection)
		n := append(vocab.ItemCollection{}, old...)
		n[0] = changeLink(n[0])
		fv.Set(reflect.ValueOf(n))
	case t == vmodel.IcT && how == "+member":
		old := fv.Interface().(vocab.ItemCollection)
		fv.Set(reflect.ValueOf(append(append(vocab.ItemCollection{}, old...), vocab.IRI("https://other.example/one-more"))))
	case t == vmodel.IcT && how == "emptied":
		// what Clean(), Remove of the last member or a de-duplication leave behind: the list is still there, with nobody in it
		old := fv.Interface().(vocab.ItemCollection)
		fv.Set(reflect.ValueOf(append(vocab.ItemCollection{}, old...)[:0]))
	case t == vmodel.IcT && how == "-member":
		old := fv.Interface().(vocab.ItemCollection)
		fv.Set(reflect.ValueOf(append(vocab.ItemCollection{}, old[:len(old)-1]...)))
	case t.Kind() == reflect.Interface && (how == "href" || how == "name"):
		fv.Set(reflect.ValueOf(changeLink(fv.Interface().(vocab.Item))))
	case t == vmodel.NlvT:
		old := fv.Interface().(vocab.NaturalLanguageValues)
		n := append(vocab.NaturalLanguageValues{}, old...)
		n[0] = vocab.LangRefValue{Ref: old[0].Ref, Value: vocab.Content(string(old[0].Value) + " (changed)")}
		fv.Set(reflect.ValueOf(n))
	case t == vmodel.TimeT:
		d := time.Hour
		if i := strings.IndexByte(shape, '|'); i >= 0 {
			// a change inside the same second is a change too
			d, _ = time.ParseDuration(shape[i+1:])
		}
		fv.Set(reflect.ValueOf(fv.Interface().(time.Time).Add(d)))
	case t == vmodel.DurT:
		fv.Set(reflect.ValueOf(time.Duration(fv.Int()) + time.Minute))
	default:
		// items and lists: fresh ids from a generator whose counter is offset, so no member coincides
		for i := 0; i < 50; i++ {
			g.IRI()
		}
		g.SetShape(fv, t, baseShape(shape))
	}
}

func init() {
	nl := nilLikes()
	reflSingles := singleExact
	Register(&Prop{
		ID: "C09",
		Rule: "laws as oracles: (R) ItemsEqual(x,x) for every exhaustive single-field value (all 14 kinds incl. links, pointer and value forms), top-level item lists and IRI lists, and seeded random nested values; (H) ids that differ only in host across 17 host pairs (IPv6 literals, IPv4, ports, subdomains, punycode) in IRI/object/actor forms; (L) lists of 7-17 members holding id-less objects and links that differ in one member; (N) the full nil-like x nil-like and nil-like x non-nil matrix in both argument orders; " +
			"(I) for every object kind x {specific, generic type name} x {id host, id path, id query, type, each core property except mediaType/source in several shapes, and for transitive activities actor/object/target/result/origin/instrument}: a copy that differs in exactly that one thing must be unequal in both orders (evaluated only when the unmodified copy compares equal); (I in context) the same with one more property set identically on both sides, for every property of the kind in its structural shapes (IRI, object, link, item list, IRI list, 9-member list, empty list, 1/2/0 language values); (O) every single-property value of every kind against the same value without that property, both orders and forms: no panic; (P) ids on one host whose paths differ around percent-escaped reserved characters, prefixes, segments and 300-byte paths; distinct = law + case fingerprint; non-trivial = every case with a non-nil item",
		Layers: func(tier string) []Layer {
			return []Layer{
				{Name: "reflexive-single", N: len(reflSingles), Exhaustive: true, Run: func(c *Ctx, idx int) {
					sc := reflSingles[idx]
					g := exactGen(c, true, idx)
					p := g.BuildSingle(sc)
					for _, form := range []string{"ptr", "val"} {
						var x vocab.Item = p.(vocab.Item)
						if form == "val" {
							x = reflect.ValueOf(p).Elem().Interface().(vocab.Item)
						}
						c.Distinct("R|"+sc.String()+"|"+form, true)
						c.Count("law:R", 1)
						if eq, ok := itemsEqual(c, "R "+sc.String(), x, x); ok && !eq {
							cn := vmodel.Canon(p, vmodel.Exact)
							fcn := cn.Props[sc.Field.Term]
							c.Fail(fmt.Sprintf("eq|R|%s|%s", sc.Kind.Fam, vmodel.Shape(fcn)), fmt.Sprintf("ItemsEqual(x,x) is false for %s (%s form)", sc.String(), form),
								map[string]any{"case": sc.String(), "form": form, "value": clipS(cn.String(), 400)})
						}
					}
					if idx%2000 == 0 {
						c.Sample(map[string]any{"law": "R", "case": sc.String()})
					}
				}},
				{Name: "reflexive-constructed", N: len(allConstructed), Exhaustive: true, Run: func(c *Ctx, idx int) {
					cv := allConstructed[idx]
					x, again := cv.Make(), cv.Make()
					c.Distinct("R|constructed|"+cv.Label, true)
					c.Count("law:R", 2)
					if eq, ok := itemsEqual(c, "R constructed "+cv.Label, x, x); ok && !eq {
						c.Fail("eq|R|constructed", "ItemsEqual(x,x) is false for a value made by "+cv.Label, map[string]any{"case": cv.Label})
					}
					if eq, ok := itemsEqual(c, "R constructed-twice "+cv.Label, x, again); ok && !eq {
						c.Fail("eq|R|constructed-twice", "two values made the same way by "+cv.Label+" are not equal", map[string]any{"case": cv.Label})
					}
				}},
				{Name: "reflexive-toplevel", N: len(vmodel.ItemShapes(false)), Exhaustive: true, Run: func(c *Ctx, idx int) {
					g := exactGen(c, true, idx)
					sh := vmodel.ItemShapes(false)[idx]
					x := g.ItemShape(sh)
					c.Distinct("R|top|"+sh, true)
					c.Count("law:R", 1)
					if eq, ok := itemsEqual(c, "R top "+sh, x, x); ok && !eq {
						c.Fail("eq|R|top|"+sh, "ItemsEqual(x,x) is false for a top-level "+sh, map[string]any{"shape": sh, "value": clipS(vmodel.Canon(x, vmodel.Exact).String(), 400)})
					}
					if pv, ok := x.(vocab.ItemCollection); ok {
						if eq, ok := itemsEqual(c, "R top &"+sh, &pv, &pv); ok && !eq {
							c.Fail("eq|R|top|&"+sh, "ItemsEqual(&list,&list) is false for "+sh, map[string]any{"shape": sh})
						}
					}
				}},
				{Name: "nil-matrix", N: len(nl) * (len(nl) + len(vmodel.ItemShapes(false))), Exhaustive: true, Run: func(c *Ctx, idx int) {
					per := len(nl) + len(vmodel.ItemShapes(false))
					a := nl[idx/per]
					j := idx % per
					c.Count("law:N", 1)
					if j < len(nl) {
						b := nl[j]
						c.Distinct("N|"+a.Name+"|"+b.Name, true)
						if eq, ok := itemsEqual(c, "N "+a.Name+" vs "+b.Name, a.It, b.It); ok && !eq {
							c.Fail("eq|N|nil-nil|"+nilClass(a.Name)+"|"+nilClass(b.Name), fmt.Sprintf("two nil-like items are not equal: %s vs %s", a.Name, b.Name), map[string]any{"a": a.Name, "b": b.Name})
						}
						return
					}
					sh := vmodel.ItemShapes(false)[j-len(nl)]
					g := exactGen(c, true, idx)
					x := g.ItemShape(sh)
					c.Distinct("N|"+a.Name+"|"+sh, true)
					if eq, ok := itemsEqual(c, "N "+a.Name+" vs "+sh, a.It, x); ok && eq {
						c.Fail("eq|N|nil-nonnil|"+nilClass(a.Name)+"|"+shapeClass(sh), fmt.Sprintf("nil-like %s equals non-nil %s", a.Name, sh), map[string]any{"a": a.Name, "b": sh})
					}
					if eq, ok := itemsEqual(c, "N "+sh+" vs "+a.Name, x, a.It); ok && eq {
						c.Fail("eq|N|nonnil-nil|"+shapeClass(sh)+"|"+nilClass(a.Name), fmt.Sprintf("non-nil %s equals nil-like %s", sh, a.Name), map[string]any{"a": sh, "b": a.Name})
					}
				}},
				{Name: "identity", N: len(allIdentCases), Exhaustive: true, Run: func(c *Ctx, idx int) {
					ic := allIdentCases[idx]
					x, y, desc := buildIdent(ic, idx)
					base := vmodel.DeepCopy(x).(vocab.Item)
					c.Distinct("I|"+desc, true)
					c.Count("law:I", 1)
					if idx%700 == 0 {
						c.Sample(map[string]any{"law": "I", "case": desc})
					}
					eq0, ok := itemsEqual(c, "I baseline "+desc, x, base)
					if !ok {
						return
					}
					if !eq0 {
						c.Count("I-baseline-not-reflexive", 1)
						// an (R) failure: reported by the reflexive layers, not here
						return
					}
					what := ic.What
					if what == "field" {
						what = "field:" + ic.Field.Term + ":" + ic.Shape
					}
					generic := "specific"
					if ic.Type == ic.Kind.Types[0] && len(ic.Kind.Types) > 1 {
						generic = "generic"
					}
					for _, ord := range []string{"xy", "yx"} {
						a, b := x, y
						if ord == "yx" {
							a, b = y, x
						}
						if eq, ok := itemsEqual(c, "I "+desc+" "+ord, a, b); ok && eq {
							c.Fail(fmt.Sprintf("eq|I|%s|%s|%s", ic.Kind.Fam, generic, what),
								fmt.Sprintf("a copy of %s that differs only in %s compares equal (%s)", desc, what, ord),
								map[string]any{"case": desc, "order": ord, "x": clipS(vmodel.Canon(x, vmodel.Exact).String(), 300), "y": clipS(vmodel.Canon(y, vmodel.Exact).String(), 300)})
						}
					}
				}},
				{Name: "identity-in-context", N: len(allContextCases), Exhaustive: true, Run: func(c *Ctx, idx int) {
					// law (I) again, but with one more property set - identically on both sides - in each of its structural shapes:
					// a comparison that returns early, or switches strategy, because of that other property must still see the difference
					cc := allContextCases[idx]
					g := vmodel.NewGen(newRand(int64(idx)*17 + 3))
					p := cc.Kind.New()
					v := reflect.ValueOf(p).Elem()
					v.FieldByName("ID").Set(reflect.ValueOf(vocab.IRI("https://example.com/ctx/1")))
					v.FieldByName("Type").Set(reflect.ValueOf(vocab.ActivityVocabularyType(cc.Kind.SpecificType())))
					g.SetShape(v.Field(cc.Ctx.Index), cc.Ctx.Type, cc.CtxShape)
					c.Distinct(fmt.Sprintf("ctx|%s|%s=%s", cc.Kind.Name, cc.Ctx.Term, cc.CtxShape), true)
					// the id first: the same value under another id is another thing, whatever else the two share
					{
						yp := vmodel.DeepCopy(p)
						reflect.ValueOf(yp).Elem().FieldByName("ID").Set(reflect.ValueOf(vocab.IRI("https://example.com/ctx/2")))
						x, y, same := p.(vocab.Item), yp.(vocab.Item), vmodel.DeepCopy(p).(vocab.Item)
						desc := fmt.Sprintf("%s with %s=%s on both sides, differing in id", cc.Kind.Name, cc.Ctx.Term, cc.CtxShape)
						c.Count("law:I", 1)
						if eq0, ok := itemsEqual(c, "I baseline "+desc, x, same); ok && eq0 {
							for _, ord := range [][2]vocab.Item{{x, y}, {y, x}} {
								if eq, ok := itemsEqual(c, "I "+desc, ord[0], ord[1]); ok && eq {
									c.Fail(fmt.Sprintf("eq|I|context|%s|%s:%s|id", cc.Kind.Fam, cc.Ctx.Term, shapeClass(cc.CtxShape)), "values whose ids differ compare equal: "+desc, map[string]any{"case": desc})
								}
							}
						}
					}
					for _, df := range cc.Kind.Fields() {
						shapes := identShapes(df.Type)
						if df.Term == cc.Ctx.Term || coreExcluded[df.Term] || len(shapes) == 0 || !identTerm(cc.Kind, df.Term) {
							continue
						}
						xp := vmodel.DeepCopy(p)
						g.SetShape(reflect.ValueOf(xp).Elem().Field(df.Index), df.Type, shapes[0])
						yp := vmodel.DeepCopy(xp)
						gy := vmodel.NewGen(newRand(int64(idx)*17 + 4))
						gy.Base = "https://other.example"
						setDifferent(gy, reflect.ValueOf(yp).Elem().Field(df.Index), df.Type, shapes[0])
						x, y, same := xp.(vocab.Item), yp.(vocab.Item), vmodel.DeepCopy(xp).(vocab.Item)
						desc := fmt.Sprintf("%s with %s=%s on both sides, differing in %s", cc.Kind.Name, cc.Ctx.Term, cc.CtxShape, df.Term)
						c.Count("law:I", 1)
						c.Count("law:I-in-context", 1)
						eq0, ok := itemsEqual(c, "I baseline "+desc, x, same)
						if !ok || !eq0 {
							continue
						}
						for _, ord := range [][2]vocab.Item{{x, y}, {y, x}} {
							if eq, ok := itemsEqual(c, "I "+desc, ord[0], ord[1]); ok && eq {
								c.Fail(fmt.Sprintf("eq|I|context|%s|%s:%s|%s", cc.Kind.Fam, cc.Ctx.Term, shapeClass(cc.CtxShape), df.Term),
									"values that differ in one property compare equal: "+desc, map[string]any{"case": desc, "x": clipS(vmodel.Canon(x, vmodel.Exact).String(), 300), "y": clipS(vmodel.Canon(y, vmodel.Exact).String(), 300)})
							}
						}
					}
				}},
				{Name: "one-sided-property", N: len(singleExact), Exhaustive: true, Run: func(c *Ctx, idx int) {
					// "comparison never panics and always terminates": a value that has one property (any property of any kind, in any
					// shape) against the same value without it, both orders, pointer and value forms; the answer is not judged here
					sc := singleExact[idx]
					g := exactGen(c, true, idx)
					full := g.BuildSingle(sc)
					bare := vmodel.DeepCopy(full)
					bv := reflect.ValueOf(bare).Elem().Field(sc.Field.Index)
					bv.Set(reflect.Zero(bv.Type()))
					// everything else the two agree on, so that a comparison gets as far as the one-sided property
					for _, p := range []any{full, bare} {
						reflect.ValueOf(p).Elem().FieldByName("Name").Set(reflect.ValueOf(vocab.NaturalLanguageValues{{Ref: vocab.NilLangRef, Value: vocab.Content("same")}}))
					}
					if sc.Field.Name == "Name" {
						reflect.ValueOf(bare).Elem().FieldByName("Name").Set(reflect.Zero(vmodel.NlvT))
					}
					c.Distinct("one-sided|"+sc.String(), true)
					for _, form := range []string{"ptr", "val"} {
						var a, b vocab.Item = full.(vocab.Item), bare.(vocab.Item)
						if form == "val" {
							a, b = reflect.ValueOf(full).Elem().Interface().(vocab.Item), reflect.ValueOf(bare).Elem().Interface().(vocab.Item)
						}
						c.Count("one-sided-comparisons", 2)
						c.Pending("one-sided " + sc.String())
						c.Guard("ItemsEqual(with,without) "+sc.Kind.Name+"."+sc.Field.Term, func() { _ = vocab.ItemsEqual(a, b) })
						c.Guard("ItemsEqual(without,with) "+sc.Kind.Name+"."+sc.Field.Term, func() { _ = vocab.ItemsEqual(b, a) })
						c.Eval(2)
					}
				}},
				{Name: "id-paths", N: len(pathPairs) * 2, Exhaustive: true, Run: func(c *Ctx, idx int) {
					pp := pathPairs[idx/2]
					host := []string{"https://example.com", "http://social.example:8443"}[idx%2]
					ia, ib := vocab.IRI(host+pp[0]), vocab.IRI(host+pp[1])
					forms := []struct {
						n    string
						a, b vocab.Item
					}{
						{"iri-iri", ia, ib},
						{"obj-obj", &vocab.Object{ID: ia, Type: vocab.NoteType}, &vocab.Object{ID: ib, Type: vocab.NoteType}},
						{"objv-iri", vocab.Object{ID: ia, Type: vocab.NoteType}, ib},
						{"place-place", &vocab.Place{ID: ia, Type: vocab.PlaceType}, &vocab.Place{ID: ib, Type: vocab.PlaceType}},
						{"tags", &vocab.Object{ID: "https://example.com/holder", Type: vocab.NoteType, Tag: vocab.ItemCollection{ia}}, &vocab.Object{ID: "https://example.com/holder", Type: vocab.NoteType, Tag: vocab.ItemCollection{ib}}},
					}
					for _, f := range forms {
						desc := fmt.Sprintf("%s ids %q vs %q", f.n, string(ia), string(ib))
						c.Distinct("paths|"+desc, true)
						c.Count("law:I", 1)
						for _, ord := range [][2]vocab.Item{{f.a, f.b}, {f.b, f.a}} {
							if eq, ok := itemsEqual(c, "I "+desc, ord[0], ord[1]); ok && eq {
								c.Fail("eq|I|id-path|"+pp[2]+"|"+f.n, "items whose ids differ in the path compare equal: "+desc, map[string]any{"case": desc})
							}
						}
					}
				}},
				{Name: "id-hosts", N: len(hostPairs) * 3, Exhaustive: true, Run: func(c *Ctx, idx int) {
					hp := hostPairs[idx/3]
					suffix := []string{"/actors/jdoe", "/inbox?page=2", ""}[idx%3]
					ia, ib := vocab.IRI("https://"+hp[0]+suffix), vocab.IRI("https://"+hp[1]+suffix)
					forms := []struct {
						n    string
						a, b vocab.Item
					}{
						{"iri-iri", ia, ib},
						{"obj-obj", &vocab.Object{ID: ia, Type: vocab.NoteType}, &vocab.Object{ID: ib, Type: vocab.NoteType}},
						{"obj-iri", &vocab.Object{ID: ia, Type: vocab.NoteType}, ib},
						{"actor-actor", &vocab.Actor{ID: ia, Type: vocab.PersonType}, vocab.Actor{ID: ib, Type: vocab.PersonType}},
					}
					for _, f := range forms {
						desc := fmt.Sprintf("%s ids %q vs %q", f.n, string(ia), string(ib))
						c.Distinct("hosts|"+desc, true)
						c.Count("law:I", 1)
						for _, ord := range [][2]vocab.Item{{f.a, f.b}, {f.b, f.a}} {
							if eq, ok := itemsEqual(c, "I "+desc, ord[0], ord[1]); ok && eq {
								c.Fail("eq|I|id-host|"+hostClass(hp[0])+"|"+f.n, "items whose ids differ in host compare equal: "+desc, map[string]any{"case": desc})
							}
						}
					}
				}},
				{Name: "long-lists", N: 4 * 6 * 3, Exhaustive: true, Run: func(c *Ctx, idx int) {
					// lists long enough for any index/fast path, with members that have no id
					n := []int{7, 8, 9, 17}[idx%4]
					field := []string{"Tag", "To", "Attachment", "Audience", "CC", "top"}[(idx/4)%6]
					diffAt := []string{"noid-object", "noid-link", "with-id"}[idx/24]
					mk := func(changed bool) vocab.ItemCollection {
						l := vocab.ItemCollection{}
						for i := 0; i < n; i++ {
							switch i % 4 {
							case 0:
								l = append(l, vocab.IRI(fmt.Sprintf("https://example.com/long/%d", i)))
							case 1:
								txt := fmt.Sprintf("no id %d", i)
								if changed && diffAt == "noid-object" && i == 5 {
									txt += " (changed)"
								}
								l = append(l, &vocab.Object{Type: vocab.NoteType, Name: vocab.NaturalLanguageValues{{Ref: vocab.NilLangRef, Value: vocab.Content(txt)}}})
							case 2:
								id := vocab.IRI(fmt.Sprintf("https://example.com/long/%d", i))
								if changed && diffAt == "with-id" && i == 6 {
									id += "-changed"
								}
								l = append(l, &vocab.Object{ID: id, Type: vocab.NoteType})
							default:
								href := vocab.IRI(fmt.Sprintf("https://example.com/href/%d", i))
								if changed && diffAt == "noid-link" && i == 3 {
									href += "-changed"
								}
								l = append(l, &vocab.Link{Type: vocab.MentionType, Href: href})
							}
						}
						return l
					}
					wrap := func(l vocab.ItemCollection) vocab.Item {
						if field == "top" {
							return l
						}
						o := &vocab.Object{ID: "https://example.com/long/holder", Type: vocab.NoteType}
						if field == "Attachment" {
							o.Attachment = l
						} else {
							reflect.ValueOf(o).Elem().FieldByName(field).Set(reflect.ValueOf(l))
						}
						return o
					}
					x, same, y := wrap(mk(false)), wrap(mk(false)), wrap(mk(true))
					desc := fmt.Sprintf("%d-member list in %s, differing member: %s", n, field, diffAt)
					c.Distinct("long|"+desc, true)
					c.Count("law:R", 1)
					c.Count("law:I", 1)
					if eq, ok := itemsEqual(c, "R "+desc, x, x); ok && !eq {
						c.Fail("eq|R|long-list", "ItemsEqual(x,x) is false for a "+desc, map[string]any{"case": desc})
					}
					eq0, ok := itemsEqual(c, "I baseline "+desc, x, same)
					if !ok || !eq0 {
						return
					}
					for _, ord := range [][2]vocab.Item{{x, y}, {y, x}} {
						if eq, ok := itemsEqual(c, "I "+desc, ord[0], ord[1]); ok && eq {
							c.Fail("eq|I|long-list|"+diffAt, "values that differ in one member of a long list compare equal: "+desc, map[string]any{"case": desc})
						}
					}
				}},
				{Name: "nlv-odd", N: len(oddNLVs) * len(oddNLVs) * 3, Exhaustive: true, Run: func(c *Ctx, idx int) {
					prop := []string{"name", "summary", "content"}[idx%3]
					i, j := (idx/3)/len(oddNLVs), (idx/3)%len(oddNLVs)
					mk := func(n vocab.NaturalLanguageValues) vocab.Item {
						o := &vocab.Object{ID: "https://example.com/odd", Type: vocab.NoteType}
						switch prop {
						case "name":
							o.Name = n
						case "summary":
							o.Summary = n
						default:
							o.Content = n
						}
						return o
					}
					a, b := oddNLVs[i], oddNLVs[j]
					x, y := mk(toNLV(a)), mk(toNLV(b))
					desc := fmt.Sprintf("Object.%s=%q vs %q", prop, toNLV(a), toNLV(b))
					c.Distinct("odd|"+desc, true)
					c.Count("law:odd-nlv", 1)
					if i == j {
						if eq, ok := itemsEqual(c, "R "+desc, x, x); ok && !eq {
							c.Fail("eq|R|odd-nlv|"+oddClass(a), "ItemsEqual(x,x) is false for "+desc, map[string]any{"case": desc})
						}
						return
					}
					if pairSet(a) == pairSet(b) {
						return
					}
					for _, ord := range []string{"xy", "yx"} {
						p, q := x, y
						if ord == "yx" {
							p, q = y, x
						}
						if eq, ok := itemsEqual(c, "I "+desc, p, q); ok && eq {
							c.Fail("eq|I|odd-nlv|"+oddClass(a)+"|"+oddClass(b), fmt.Sprintf("objects whose %s differ compare equal (%s): %s", prop, ord, desc), map[string]any{"case": desc, "order": ord})
						}
					}
				}},
				{Name: "reflexive-random", N: tierN(tier, 20000, 120000), Run: func(c *Ctx, idx int) {
					g := exactGen(c, false, idx)
					x, label := randomValue(g, tierN(tier, 2, 3))
					it := x.(vocab.Item)
					c.Distinct("R|rand|"+vmodel.Fingerprint(vmodel.Canon(x, vmodel.Exact)), true)
					c.Count("law:R", 1)
					if eq, ok := itemsEqual(c, "R "+label, it, it); ok && !eq {
						c.Fail("eq|R|random|"+kindOf(x), "ItemsEqual(x,x) is false for "+label, map[string]any{"case": label, "value": clipS(vmodel.Canon(x, vmodel.Exact).String(), 600)})
					}
				}},
			}
		},
		Floors: func(tier string) map[string]int64 {
			return map[string]int64{"law:R": 20000, "law:N": 500, "law:I": 1000}
		},
		Assumptions: []string{
			"'changed' means present and different (a non-empty value replaced by a different non-empty value of the same shape); removal of a property is not judged",
			"properties beyond the object core and the six activity properties are not judged (the statement does not name them)",
		},
	})
}

// unusual but legal language lists: repeated tag with different texts, empty texts, the nil tag among tagged entries, an empty tag
var oddNLVs = [][]lv{
	{{"en", "first"}, {"en", "second"}},
	{{"en", "Hello"}, {"fr", ""}},
	{{"en", "Hello"}, {"de", ""}},
	{{vocab.NilLangRef, "plain"}, {"en", "tagged"}},
	{{"en", ""}},
	{{"fr", ""}},
	{{"", "x"}},
	{{"en", "Hello"}, {"fr", "Bonjour"}},
	{{"fr", "Bonjour"}, {"en", "Hello"}},
	{{"en", "Hello"}, {"fr", "Bonjour"}, {"de", "Hallo"}},
	{{"en", "Hello"}},
}

func oddClass(l []lv) string {
	tags := map[vocab.LangRef]bool{}
	cls := "plain"
	for _, e := range l {
		if tags[e.tag] {
			cls = "repeated-tag"
		}
		tags[e.tag] = true
	}
	for _, e := range l {
		if e.text == "" {
			cls = "empty-text"
		}
		if e.tag == "" {
			cls = "empty-tag"
		}
	}
	return fmt.Sprintf("%s/len%d", cls, len(l))
}

// pairs of ids on one host whose paths differ, around percent-escapes of reserved characters, case and length
var pathPairs = [][3]string{
	{"/tags/%23golang", "/tags/%23rust", "escaped-hash"}, {"/q/%3Fa=1", "/q/%3Fa=2", "escaped-question-mark"}, {"/files/a%2Fb", "/files/a%2Fc", "escaped-slash"}, {"/rate/100%25", "/rate/100%25x", "escaped-percent"},
	{"/x%20y", "/x%20z", "escaped-space"}, {"/users/j%C3%BCrgen", "/users/j%C3%B6rgen", "escaped-utf8"}, {"/tags/%23", "/tags/%23%23", "escaped-hash"}, {"/a%3Bb", "/a%3Bc", "escaped-semicolon"},
	{"/users/jdoe", "/users/jdoe2", "prefix"}, {"/users/jdoe/", "/users/jdoe2/", "prefix"}, {"/a/b/c", "/a/b/d", "last-segment"}, {"/a/b/c", "/a/x/c", "middle-segment"}, {"/~x", "/~y", "tilde"}, {"/@alice", "/@bob", "at"},
	{"/a+b", "/a+c", "plus"}, {"/a:b", "/a:c", "colon"}, {"/" + strings.Repeat("p", 300) + "1", "/" + strings.Repeat("p", 300) + "2", "long"},
}

type contextCase struct {
	Kind     vmodel.StructKind
	Ctx      vmodel.Field
	CtxShape string
}

// the properties law (I) judges for a kind: the object core, plus the six activity properties on activity kinds
func identTerm(k vmodel.StructKind, term string) bool {
	if _, ok := vmodel.Kinds[0].FieldByTerm(term); ok {
		return true
	}
	if k.Fam == "activity" {
		for _, t := range []string{"actor", "object", "target", "result", "origin", "instrument"} {
			if t == term && (k.Name == "Activity" || t != "object") {
				return true
			}
		}
	}
	return false
}

func contextShapes(t reflect.Type) []string {
	switch {
	case t.Kind() == reflect.Interface:
		return []string{"iri", "obj:Object", "link-full", "list2", "iris2", "list9"}
	case t == vmodel.IcT:
		return []string{"l:iri", "l2", "l9", "l-empty"}
	case t == vmodel.NlvT:
		return []string{"nlv1u", "nlv2", "nlv-empty"}
	}
	return vmodel.FieldShapes(t, true)[:1]
}

var allContextCases = func() []contextCase {
	var out []contextCase
	for _, k := range vmodel.Kinds {
		if k.Name == "Link" {
			continue
		}
		for _, f := range k.Fields() {
			if f.Name == "ID" || f.Name == "Type" {
				continue
			}
			for _, sh := range contextShapes(f.Type) {
				out = append(out, contextCase{k, f, sh})
			}
		}
	}
	return out
}()

// pairs of different hosts, in every notation a URL admits
var hostPairs = [][2]string{
	{"[2001:db8::1]", "[2001:db8::2]"}, {"[2001:db8::1]:8443", "[2001:db8::2]:8443"}, {"[::1]", "[::ffff:10.0.0.7]"}, {"[2001:db8::1]", "[2001:db8:1::1]"}, {"[fe80::1]", "[fe80::1]:8080"},
	{"10.0.0.1", "10.0.0.2"}, {"10.0.0.1:80", "10.0.0.1:81"}, {"127.0.0.1", "127.0.0.10"}, {"localhost", "localhost:8080"}, {"example.com", "example.com:8443"}, {"example.com:8443", "example.com:9443"},
	{"example.com", "example.org"}, {"a.example.com", "b.example.com"}, {"example.com", "www.example.com"}, {"xn--bcher-kva.example", "xn--bcher-kvb.example"}, {"example.com", "example.co"}, {"ex-ample.com", "example.com"},
}

func hostClass(h string) string {
	switch {
	case strings.HasPrefix(h, "["):
		return "ipv6"
	case len(h) > 0 && h[0] >= '0' && h[0] <= '9':
		return "ipv4"
	}
	return "name"
}

func nilClass(n string) string {
	if len(n) > 9 && n[:9] == "typed-nil" {
		return "typed-nil"
	}
	return n
}

func shapeClass(sh string) string {
	if len(sh) > 4 && (sh[:4] == "obj:" || sh[:4] == "objv") {
		return "obj"
	}
	return sh
}
