package mon

import (
	"fmt"
	"reflect"
	"strings"

	vocab "github.com/go-ap/activitypub"

	"verif/harness/vmodel"
)

// C18: property copy/update merges without losing data and rejects mismatches.

var mergedTerms = map[string]bool{}

func init() {
	for _, t := range strings.Fields("name summary content mediaType attachment attributedTo audience context generator icon image inReplyTo location preview replies tag url to bto cc bcc startTime endTime " +
		"inbox outbox following followers liked preferredUsername first last items orderedItems partOf next prev") {
		mergedTerms[t] = true
	}
}

var copyKinds = []string{"Object", "Actor", "Collection", "OrderedCollection", "CollectionPage", "OrderedCollectionPage"}

type copyCase struct {
	Kind   vmodel.StructKind
	Fields []vmodel.Field
	Combos []int    // per field: bit0 = set in to, bit1 = set in from
	Shapes []string // per field, optional: the value shape on both sides (default: the first shape of the type)
}

func (cc copyCase) String() string {
	var parts []string
	for i, f := range cc.Fields {
		part := fmt.Sprintf("%s:%s", f.Term, []string{"neither", "to-only", "from-only", "both", "both-same-id(to:iri,from:object)", "both-same-id(to:object,from:iri)"}[cc.Combos[i]])
		if cc.Shapes != nil && cc.Shapes[i] != "" {
			part += "=" + cc.Shapes[i]
		}
		parts = append(parts, part)
	}
	return cc.Kind.Name + " " + strings.Join(parts, " ")
}

func copyFields(k vmodel.StructKind) []vmodel.Field {
	var out []vmodel.Field
	for _, f := range k.Fields() {
		if f.Name == "ID" || f.Name == "Type" {
			continue
		}
		out = append(out, f)
	}
	return out
}

var longCopyShapes bool

func firstShape(t reflect.Type) string {
	switch {
	case t.Kind() == reflect.Interface:
		if longCopyShapes {
			return "list9"
		}
		return "obj:Object"
	case t == vmodel.IcT:
		if longCopyShapes {
			return "l9"
		}
		return "l2"
	case t == vmodel.NlvT && longCopyShapes:
		return "nlv9"
	}
	return vmodel.FieldShapes(t, true)[0]
}

func runCopy(c *Ctx, cc copyCase, idx int) {
	gTo := vmodel.NewGen(newRand(int64(idx)*2 + 1))
	gFrom := vmodel.NewGen(newRand(int64(idx)*2 + 2))
	for i := 0; i < 1000; i++ {
		gFrom.IRI() // disjoint id ranges so that to's and from's values always differ
	}
	gTo.Spare, gFrom.Spare = true, true
	id := vocab.IRI("https://example.com/copy/me")
	typ := vocab.ActivityVocabularyType(cc.Kind.SpecificType())
	mk := func(g *vmodel.Gen, bit int, idv vocab.IRI) any {
		p := cc.Kind.New()
		v := reflect.ValueOf(p).Elem()
		v.FieldByName("ID").Set(reflect.ValueOf(idv))
		v.FieldByName("Type").Set(reflect.ValueOf(typ))
		for i, f := range cc.Fields {
			if cc.Combos[i] >= 4 {
				// the same id on both sides, presented as a bare IRI on one and as an embedded object on the other
				shared := vocab.IRI(fmt.Sprintf("https://example.com/shared/%s/%d", f.Term, idx))
				asIRI := (cc.Combos[i] == 4) == (bit == 1)
				var it vocab.Item = shared
				if !asIRI {
					it = &vocab.Object{ID: shared, Type: vocab.ImageType, Name: vocab.NaturalLanguageValues{{Ref: vocab.NilLangRef, Value: vocab.Content("embedded")}}}
				}
				if f.Type == vmodel.IcT {
					v.Field(f.Index).Set(reflect.ValueOf(vocab.ItemCollection{it}))
				} else {
					v.Field(f.Index).Set(reflect.ValueOf(it))
				}
				continue
			}
			if cc.Combos[i]&bit != 0 {
				shape := firstShape(f.Type)
				if cc.Shapes != nil && cc.Shapes[i] != "" {
					shape = cc.Shapes[i]
				}
				g.SetShape(v.Field(f.Index), f.Type, shape)
			}
		}
		return p
	}
	to := mk(gTo, 1, id)
	from := mk(gFrom, 2, "HTTPS://EXAMPLE.com/copy/me/") // an equivalent presentation of the same id
	judgeCopy(c, cc.Kind, cc.String(), to, from)
}

// judgeCopy runs the merge and holds the result to the statement's clauses.
func judgeCopy(c *Ctx, kind vmodel.StructKind, label string, to, from any) {
	cc := struct{ Kind vmodel.StructKind }{kind}
	toBefore := vmodel.Canon(to, vmodel.Exact)
	fromBefore := vmodel.Canon(from, vmodel.Exact)
	fromCopy := vmodel.DeepCopy(from)
	var err error
	var ret vocab.Item
	c.Pending("CopyItemProperties " + label)
	if c.Guard("CopyItemProperties", func() { ret, err = vocab.CopyItemProperties(to.(vocab.Item), from.(vocab.Item)) }) {
		return
	}
	c.Eval(1)
	c.Count("copies", 1)
	c.Count("kind:"+cc.Kind.Name, 1)
	if err != nil {
		c.Fail("copy|"+cc.Kind.Name+"|unexpected-refusal", fmt.Sprintf("%s: refused although ids are equivalent and types equal: %v", label, err), map[string]any{"case": label, "error": err.Error()})
		return
	}
	_ = ret
	toAfter := vmodel.Canon(to, vmodel.Exact)
	fail := func(term, combo, rule, what string) {
		c.Fail(fmt.Sprintf("copy|%s|%s|%s|%s", cc.Kind.Name, term, combo, rule), fmt.Sprintf("%s: %s", label, what),
			map[string]any{"case": label, "to_before": clipS(toBefore.String(), 400), "from": clipS(fromBefore.String(), 400), "to_after": clipS(toAfter.String(), 400)})
	}
	if !toAfter.Props["id"].Equal(fromBefore.Props["id"]) {
		fail("id", "-", "id-not-from", "to does not carry from's id")
	}
	if !toAfter.Props["type"].Equal(fromBefore.Props["type"]) {
		fail("type", "-", "type-not-from", "to does not carry from's type")
	}
	for _, f := range copyFields(cc.Kind) {
		tb, fb, ta := toBefore.Props[f.Term], fromBefore.Props[f.Term], toAfter.Props[f.Term]
		combo := "neither"
		switch {
		case tb != nil && fb != nil:
			combo = "both"
		case tb != nil:
			combo = "to-only"
		case fb != nil:
			combo = "from-only"
		}
		if !ta.Equal(tb) && !ta.Equal(fb) {
			fail(f.Term, combo, "neither-old-nor-new", fmt.Sprintf("%s is %s: neither what to had (%s) nor what from has (%s)", f.Term, ta.String(), tb.String(), fb.String()))
			continue
		}
		if tb != nil && fb == nil && !ta.Equal(tb) {
			fail(f.Term, combo, "lost", fmt.Sprintf("%s was set in to (%s), is unset in from, and is now %s", f.Term, tb.String(), ta.String()))
		}
		if mergedTerms[f.Term] && fb != nil && !ta.Equal(fb) {
			fail(f.Term, combo, "from-does-not-win", fmt.Sprintf("merged property %s is set in from (%s) but to holds %s", f.Term, fb.String(), ta.String()))
		}
	}
	// from is never modified (value and the whole backing arrays of its lists)
	if ds := vmodel.Diff(fromBefore, vmodel.Canon(from, vmodel.Exact)); len(ds) > 0 || !reflect.DeepEqual(fromCopy, from) {
		fail("-", "-", "from-modified", "from was modified by the merge")
	}
}

// aliased cases: list properties that share a backing array - two properties of to, a property of from that is a property of
// to, a property of from that is a sub-slice of to's. The clauses are the same; what changes is that a merge which recycles
// to's old storage now shows in another property, or in from.
type aliasCase struct {
	Kind   vmodel.StructKind
	F1, F2 vmodel.Field
	Mode   string
}

func aliasCases() []aliasCase {
	var out []aliasCase
	for _, kn := range copyKinds {
		k := vmodel.Kinds[vmodel.KindIndex(kn)]
		var lists []vmodel.Field
		for _, f := range copyFields(k) {
			if f.Type == vmodel.IcT && mergedTerms[f.Term] {
				lists = append(lists, f)
			}
		}
		for _, f1 := range lists {
			for _, f2 := range lists {
				if f1.Name == f2.Name {
					continue
				}
				for _, m := range []string{"to.f1==to.f2", "from.f2==to.f1", "from.f1==to.f1[1:]", "from.f1==to.f2[:1]"} {
					out = append(out, aliasCase{k, f1, f2, m})
				}
			}
		}
	}
	return out
}

func runAliased(c *Ctx, ac aliasCase, idx int) {
	mkList := func(base string, n, spare int) vocab.ItemCollection {
		l := make(vocab.ItemCollection, 0, n+spare)
		for i := 0; i < n; i++ {
			if i%2 == 0 {
				l = append(l, vocab.IRI(fmt.Sprintf("https://example.com/%s/%d", base, i)))
			} else {
				l = append(l, &vocab.Object{ID: vocab.IRI(fmt.Sprintf("https://example.com/%s/%d", base, i)), Type: vocab.NoteType})
			}
		}
		return l
	}
	typ := vocab.ActivityVocabularyType(ac.Kind.SpecificType())
	to, from := ac.Kind.New(), ac.Kind.New()
	tv, fv := reflect.ValueOf(to).Elem(), reflect.ValueOf(from).Elem()
	tv.FieldByName("ID").Set(reflect.ValueOf(vocab.IRI("https://example.com/copy/me")))
	fv.FieldByName("ID").Set(reflect.ValueOf(vocab.IRI("https://example.com/copy/me")))
	tv.FieldByName("Type").Set(reflect.ValueOf(typ))
	fv.FieldByName("Type").Set(reflect.ValueOf(typ))
	shared := mkList("old", 3, 3)
	switch ac.Mode {
	case "to.f1==to.f2":
		tv.Field(ac.F1.Index).Set(reflect.ValueOf(shared))
		tv.Field(ac.F2.Index).Set(reflect.ValueOf(shared))
		fv.Field(ac.F1.Index).Set(reflect.ValueOf(mkList("new", 1+idx%3, 0)))
	case "from.f2==to.f1":
		tv.Field(ac.F1.Index).Set(reflect.ValueOf(shared))
		fv.Field(ac.F2.Index).Set(reflect.ValueOf(shared))
		fv.Field(ac.F1.Index).Set(reflect.ValueOf(mkList("new", 1+idx%3, 0)))
	case "from.f1==to.f1[1:]":
		tv.Field(ac.F1.Index).Set(reflect.ValueOf(shared))
		fv.Field(ac.F1.Index).Set(reflect.ValueOf(shared[1:]))
	default:
		tv.Field(ac.F1.Index).Set(reflect.ValueOf(mkList("other", 2, 2)))
		tv.Field(ac.F2.Index).Set(reflect.ValueOf(shared))
		fv.Field(ac.F1.Index).Set(reflect.ValueOf(shared[:1]))
	}
	c.Count("aliased-copies", 1)
	judgeCopy(c, ac.Kind, fmt.Sprintf("%s aliased lists %s (f1=%s, f2=%s)", ac.Kind.Name, ac.Mode, ac.F1.Term, ac.F2.Term), to, from)
}

type refusal struct {
	Name string
	To   func() vocab.Item
	From func() vocab.Item
}

func refusals() []refusal {
	obj := func(id, typ string) func() vocab.Item {
		return func() vocab.Item {
			return &vocab.Object{ID: vocab.IRI(id), Type: vocab.ActivityVocabularyType(typ), Name: vocab.NaturalLanguageValues{{Ref: vocab.NilLangRef, Value: vocab.Content("keep me")}}, To: vocab.ItemCollection{vocab.IRI("https://example.com/x")}}
		}
	}
	actor := func(id, typ string) func() vocab.Item {
		return func() vocab.Item {
			return &vocab.Actor{ID: vocab.IRI(id), Type: vocab.ActivityVocabularyType(typ), Inbox: vocab.IRI(id + "/inbox")}
		}
	}
	var out []refusal
	tn := typedNils()
	out = append(out,
		refusal{"to untyped nil", func() vocab.Item { return nil }, obj("https://example.com/a", "Note")},
		refusal{"from untyped nil", obj("https://example.com/a", "Note"), func() vocab.Item { return nil }},
		refusal{"both nil", func() vocab.Item { return nil }, func() vocab.Item { return nil }},
	)
	for _, n := range typedNilNames {
		if n == "*Link" {
			continue
		}
		n := n
		out = append(out,
			refusal{"to typed nil " + n, func() vocab.Item { return tn[n] }, obj("https://example.com/a", "Note")},
			refusal{"from typed nil " + n, obj("https://example.com/a", "Note"), func() vocab.Item { return tn[n] }})
	}
	// to has a type, from has none (the other direction of "to has a type that differs from from's"), for every supported kind
	for _, kn := range copyKinds {
		k := vmodel.Kinds[vmodel.KindIndex(kn)]
		mk := func(typ string) func() vocab.Item {
			return func() vocab.Item {
				p := reflect.ValueOf(k.New())
				p.Elem().FieldByName("ID").Set(reflect.ValueOf(vocab.IRI("https://example.com/a")))
				p.Elem().FieldByName("Type").Set(reflect.ValueOf(vocab.ActivityVocabularyType(typ)))
				p.Elem().FieldByName("Summary").Set(reflect.ValueOf(vocab.NaturalLanguageValues{{Ref: vocab.NilLangRef, Value: vocab.Content("summary of " + typ)}}))
				return p.Interface().(vocab.Item)
			}
		}
		out = append(out, refusal{"type differs: typed " + kn + " to, untyped from", mk(k.SpecificType()), mk("")})
		// one side without an id: an empty id is not equivalent to any id
		mkID := func(id string) func() vocab.Item {
			return func() vocab.Item {
				it := mk(k.SpecificType())()
				reflect.ValueOf(it).Elem().FieldByName("ID").Set(reflect.ValueOf(vocab.IRI(id)))
				return it
			}
		}
		out = append(out, refusal{"id missing in to (" + kn + ")", mkID(""), mkID("https://example.com/a")},
			refusal{"id missing in from (" + kn + ")", mkID("https://example.com/a"), mkID("")})
	}
	out = append(out,
		refusal{"id host differs", obj("https://example.com/a", "Note"), obj("https://other.example/a", "Note")},
		refusal{"id path differs", obj("https://example.com/a", "Note"), obj("https://example.com/b", "Note")},
		refusal{"id query differs", obj("https://example.com/a?x=1", "Note"), obj("https://example.com/a?x=2", "Note")},
		refusal{"to IRI vs object with other id", func() vocab.Item { return vocab.IRI("https://example.com/z") }, obj("https://example.com/a", "Note")},
		refusal{"type differs (object)", obj("https://example.com/a", "Note"), obj("https://example.com/a", "Article")},
		refusal{"type differs (actor)", actor("https://example.com/a", "Person"), actor("https://example.com/a", "Group")},
		refusal{"type differs (object vs actor name)", obj("https://example.com/a", "Note"), actor("https://example.com/a", "Person")},
		refusal{"unsupported type Create", func() vocab.Item {
			return &vocab.Activity{ID: "https://example.com/a", Type: vocab.CreateType, Object: vocab.IRI("https://example.com/o")}
		}, func() vocab.Item {
			return &vocab.Activity{ID: "https://example.com/a", Type: vocab.CreateType, Object: vocab.IRI("https://example.com/o2"), Summary: vocab.NaturalLanguageValues{{Ref: vocab.NilLangRef, Value: vocab.Content("s")}}}
		}},
		refusal{"unsupported type Question", func() vocab.Item { return &vocab.Question{ID: "https://example.com/a", Type: vocab.QuestionType} }, func() vocab.Item {
			return &vocab.Question{ID: "https://example.com/a", Type: vocab.QuestionType, Closed: true}
		}},
		refusal{"unsupported type name", obj("https://example.com/a", "Bogus"), obj("https://example.com/a", "Bogus")},
		refusal{"actor type on an object struct", obj("https://example.com/a", "Person"), obj("https://example.com/a", "Person")},
		refusal{"collection type on an object struct", obj("https://example.com/a", "OrderedCollection"), obj("https://example.com/a", "OrderedCollection")},
	)
	return out
}

func init() {
	type single struct {
		k     vmodel.StructKind
		f     vmodel.Field
		combo int
	}
	var singles []single
	type pair struct {
		k      vmodel.StructKind
		f1, f2 vmodel.Field
		c1, c2 int
	}
	var pairs []pair
	for _, kn := range copyKinds {
		k := vmodel.Kinds[vmodel.KindIndex(kn)]
		fs := copyFields(k)
		for _, f := range fs {
			for combo := 0; combo < 6; combo++ {
				if combo >= 4 && f.Type.Kind() != reflect.Interface && f.Type != vmodel.IcT {
					continue
				}
				singles = append(singles, single{k, f, combo})
			}
		}
		for i := 0; i < len(fs); i++ {
			for j := i + 1; j < len(fs); j++ {
				// to-only next to from-only, and both/both: the combinations where one replace can disturb the neighbour
				pairs = append(pairs, pair{k, fs[i], fs[j], 1, 2}, pair{k, fs[i], fs[j], 2, 1}, pair{k, fs[i], fs[j], 3, 1})
			}
		}
	}
	type shapedCase struct {
		k     vmodel.StructKind
		f     vmodel.Field
		combo int
		shape string
	}
	var shaped []shapedCase
	for _, kn := range copyKinds {
		k := vmodel.Kinds[vmodel.KindIndex(kn)]
		for _, f := range copyFields(k) {
			for _, sh := range vmodel.FieldShapes(f.Type, true) {
				if strings.HasSuffix(sh, "-empty") || sh == "nlv-blank-only" {
					continue // set-but-empty says nothing: the single-property layer has the unset combinations
				}
				shaped = append(shaped, shapedCase{k, f, 2, sh}, shapedCase{k, f, 3, sh})
			}
		}
	}
	refs := refusals()
	aliases := aliasCases()
	Register(&Prop{
		ID: "C18",
		Rule: "model: per merged property to' = from if set in from else to; id/type from from; every property of to' is what to had or what from has; nothing set in to and unset in from is lost; from unchanged (deep comparison incl. spare capacity of its lists). " +
			"Exhaustive: Object, Actor and the four collection kinds x every property x the four (set in to?, set in from?) combinations, plus - for item and list properties - the same id on both sides presented as an IRI on one and as an embedded object on the other; every property x every admissible value shape of its type (from only, both sides); every property pair x 3 combination patterns; 3 000 id pairs from the C14 grid (non-equivalent ids by the reference normaliser must be refused, equivalent ones accepted); the refusal matrix (untyped nil, typed nil of each struct on either side, non-equivalent ids, differing types, unsupported types) demanding an error and an untouched to; random subsets of properties on both sides (the 2^n space, sampled); distinct = the case; non-trivial = at least one property set on either side",
		Layers: func(tier string) []Layer {
			return []Layer{
				{Name: "single-property", N: len(singles), Exhaustive: true, Run: func(c *Ctx, idx int) {
					s := singles[idx]
					cc := copyCase{Kind: s.k, Fields: []vmodel.Field{s.f}, Combos: []int{s.combo}}
					c.Distinct(cc.String(), s.combo != 0)
					if idx%250 == 0 {
						c.Sample(map[string]any{"case": cc.String()})
					}
					runCopy(c, cc, idx)
				}},
				{Name: "every-shape", N: len(shaped), Exhaustive: true, Run: func(c *Ctx, idx int) {
					// every admissible value shape of every property (lists of one, nine and thirty-three members, language lists
					// with repeated and untagged entries, zoned and sub-second instants, ...), set in from only and on both sides
					s := shaped[idx]
					cc := copyCase{s.k, []vmodel.Field{s.f}, []int{s.combo}, []string{s.shape}}
					c.Distinct(cc.String(), true)
					c.Count("shaped-copies", 1)
					runCopy(c, cc, idx)
				}},
				{Name: "property-pairs", N: len(pairs), Exhaustive: true, Run: func(c *Ctx, idx int) {
					p := pairs[idx]
					cc := copyCase{Kind: p.k, Fields: []vmodel.Field{p.f1, p.f2}, Combos: []int{p.c1, p.c2}}
					c.Distinct(cc.String(), true)
					runCopy(c, cc, idx)
				}},
				{Name: "aliased-lists", N: len(aliases), Exhaustive: true, Run: func(c *Ctx, idx int) {
					ac := aliases[idx]
					c.Distinct(fmt.Sprintf("alias|%s|%s|%s|%s", ac.Kind.Name, ac.F1.Term, ac.F2.Term, ac.Mode), true)
					runAliased(c, ac, idx)
				}},
				{Name: "totals", N: 4 * 4 * 3 * 3 * 3, Exhaustive: true, Run: func(c *Ctx, idx int) {
					// collections: totalItems and the members on both sides, small numbers on purpose (a total below, at and above
					// the number of members): totalItems ends up as to's or from's value, never a third one
					kn := []string{"Collection", "OrderedCollection", "CollectionPage", "OrderedCollectionPage"}[idx%4]
					tt := []uint{0, 1, 2, 7}[(idx/4)%4]
					ft := []uint{0, 1, 5}[(idx/16)%3]
					ti := []int{0, 1, 3}[(idx/48)%3]
					fi := []int{0, 2, 4}[(idx/144)%3]
					k := vmodel.Kinds[vmodel.KindIndex(kn)]
					mk := func(total uint, n int, base string) any {
						p := reflect.ValueOf(k.New())
						p.Elem().FieldByName("ID").Set(reflect.ValueOf(vocab.IRI("https://example.com/copy/col")))
						p.Elem().FieldByName("Type").Set(reflect.ValueOf(vocab.ActivityVocabularyType(k.SpecificType())))
						p.Elem().FieldByName("TotalItems").SetUint(uint64(total))
						if n > 0 {
							l := vocab.ItemCollection{}
							for i := 0; i < n; i++ {
								l = append(l, vocab.IRI(fmt.Sprintf("https://example.com/%s/%d", base, i)))
							}
							f := p.Elem().FieldByName("Items")
							if !f.IsValid() {
								f = p.Elem().FieldByName("OrderedItems")
							}
							f.Set(reflect.ValueOf(l))
						}
						return p.Interface()
					}
					c.Distinct(fmt.Sprintf("totals|%s|%d|%d|%d|%d", kn, tt, ft, ti, fi), true)
					c.Count("totals-cases", 1)
					judgeCopy(c, k, fmt.Sprintf("%s totalItems to=%d from=%d, members to=%d from=%d", kn, tt, ft, ti, fi), mk(tt, ti, "old"), mk(ft, fi, "new"))
				}},
				{Name: "refusals", N: len(refs), Exhaustive: true, Run: func(c *Ctx, idx int) {
					r := refs[idx]
					to, from := r.To(), r.From()
					c.Distinct("refusal|"+r.Name, true)
					c.Count("refusals", 1)
					c.Sample(map[string]any{"refusal": r.Name})
					toBefore := vmodel.Canon(to, vmodel.Exact)
					fromBefore := vmodel.Canon(from, vmodel.Exact)
					var err error
					c.Pending("CopyItemProperties refusal " + r.Name)
					if c.Guard("CopyItemProperties", func() { _, err = vocab.CopyItemProperties(to, from) }) {
						return
					}
					c.Eval(1)
					cls := strings.Fields(r.Name)
					sig := strings.Join(cls[:minInt(3, len(cls))], "-")
					if err == nil {
						c.Fail("copy|refusal|"+sig+"|no-error", "CopyItemProperties did not refuse: "+r.Name, map[string]any{"case": r.Name})
					}
					if ds := vmodel.Diff(toBefore, vmodel.Canon(to, vmodel.Exact)); len(ds) > 0 {
						c.Fail("copy|refusal|"+sig+"|to-touched", fmt.Sprintf("%s: to was modified (%s %s) although the merge must be refused", r.Name, ds[0].Path, ds[0].Kind), map[string]any{"case": r.Name})
					}
					if ds := vmodel.Diff(fromBefore, vmodel.Canon(from, vmodel.Exact)); len(ds) > 0 {
						c.Fail("copy|refusal|"+sig+"|from-modified", r.Name+": from was modified", map[string]any{"case": r.Name})
					}
				}},
				{Name: "error-means-untouched", N: len(vmodel.Kinds) * len(vmodel.Kinds) * 4, Exhaustive: true, Run: func(c *Ctx, idx int) {
					// every struct kind as to x every struct kind as from x {to typed like from, to untyped} x {type specific, generic},
					// same id: whatever CopyItemProperties decides, an error means that to was not touched, and from never is
					nk := len(vmodel.Kinds)
					kt, kf := vmodel.Kinds[idx%nk], vmodel.Kinds[(idx/nk)%nk]
					untypedTo := (idx/(nk*nk))%2 == 1
					generic := idx/(nk*nk*2) == 1
					if kt.Name == "Link" || kf.Name == "Link" {
						return
					}
					ft := kf.SpecificType()
					if generic {
						ft = kf.Types[0]
					}
					mk := func(k vmodel.StructKind, typ string, seed int64) vocab.Item {
						g := vmodel.NewGen(newRand(seed))
						g.PSet = 0.3
						p := g.Struct(k, 1, true)
						v := reflect.ValueOf(p).Elem()
						v.FieldByName("ID").Set(reflect.ValueOf(vocab.IRI("https://example.com/copy/any")))
						v.FieldByName("Type").Set(reflect.ValueOf(vocab.ActivityVocabularyType(typ)))
						return p.(vocab.Item)
					}
					tt := ft
					if untypedTo {
						tt = ""
					}
					to, from := mk(kt, tt, int64(idx)*2+1), mk(kf, ft, int64(idx)*2+2)
					label := fmt.Sprintf("to=*%s[%s] from=*%s[%s]", kt.Name, tt, kf.Name, ft)
					c.Distinct("any|"+label, true)
					c.Count("any-outcome-cases", 1)
					toBefore, fromBefore := vmodel.Canon(to, vmodel.Exact), vmodel.Canon(from, vmodel.Exact)
					var err error
					c.Pending("CopyItemProperties " + label)
					if c.Guard("CopyItemProperties", func() { _, err = vocab.CopyItemProperties(to, from) }) {
						return
					}
					c.Eval(1)
					if err != nil {
						c.Count("any-outcome-refused", 1)
						if ds := vmodel.Diff(toBefore, vmodel.Canon(to, vmodel.Exact)); len(ds) > 0 {
							c.Fail(fmt.Sprintf("copy|error-but-touched|%s|%s", kt.Fam, kf.Fam), fmt.Sprintf("%s: refused (%v) but to was modified: %s %s", label, err, ds[0].Path, ds[0].Kind), map[string]any{"case": label, "error": err.Error()})
						}
					}
					if ds := vmodel.Diff(fromBefore, vmodel.Canon(from, vmodel.Exact)); len(ds) > 0 {
						c.Fail(fmt.Sprintf("copy|from-modified|%s|%s", kt.Fam, kf.Fam), label+": from was modified", map[string]any{"case": label})
					}
				}},
				{Name: "refusals-id-grid", N: 3000, Exhaustive: true, Run: func(c *Ctx, idx int) {
					n := len(grid)
					a := grid[(idx*131)%n]
					b := grid[(idx*977+idx/7+1)%n]
					equiv := a.Key[1] == b.Key[1]
					to := &vocab.Object{ID: vocab.IRI(a.S), Type: vocab.NoteType, Name: vocab.NaturalLanguageValues{{Ref: vocab.NilLangRef, Value: vocab.Content("keep me")}}}
					from := &vocab.Object{ID: vocab.IRI(b.S), Type: vocab.NoteType, Name: vocab.NaturalLanguageValues{{Ref: vocab.NilLangRef, Value: vocab.Content("new")}}, Summary: vocab.NaturalLanguageValues{{Ref: vocab.NilLangRef, Value: vocab.Content("s")}}}
					before := vmodel.Canon(to, vmodel.Exact)
					c.Distinct("idgrid|"+a.S+"|"+b.S, !equiv)
					var err error
					if c.Guard("CopyItemProperties", func() { _, err = vocab.CopyItemProperties(to, from) }) {
						return
					}
					c.Eval(1)
					c.Count("id-grid-pairs", 1)
					if equiv {
						c.Count("id-grid-equivalent", 1)
						if err != nil {
							c.Fail("copy|id-grid|equivalent-ids-refused", fmt.Sprintf("ids %q and %q are equivalent but the merge was refused: %v", a.S, b.S, err), map[string]any{"to": a.S, "from": b.S})
						}
						return
					}
					if err == nil {
						c.Fail(fmt.Sprintf("copy|id-grid|%s|%s|not-refused", iriClass(a.S), iriClass(b.S)), fmt.Sprintf("ids %q and %q are not equivalent but the merge was not refused", a.S, b.S), map[string]any{"to": a.S, "from": b.S})
					}
					if ds := vmodel.Diff(before, vmodel.Canon(to, vmodel.Exact)); len(ds) > 0 {
						c.Fail("copy|id-grid|to-touched", fmt.Sprintf("ids %q and %q are not equivalent but to was modified (%s)", a.S, b.S, ds[0].Path), map[string]any{"to": a.S, "from": b.S})
					}
				}},
				{Name: "random-subsets", N: tierN(tier, 20000, 300000), Run: func(c *Ctx, idx int) {
					k := vmodel.Kinds[vmodel.KindIndex(copyKinds[c.R.Intn(len(copyKinds))])]
					fs := copyFields(k)
					cc := copyCase{Kind: k}
					for _, f := range fs {
						if combo := c.R.Intn(7); combo < 4 && combo > 0 {
							cc.Fields = append(cc.Fields, f)
							cc.Combos = append(cc.Combos, combo)
						}
					}
					c.Distinct(cc.String(), len(cc.Fields) > 0)
					longCopyShapes = idx%5 == 0 // every fifth case uses 9-member lists and 9-language texts
					runCopy(c, cc, idx+1000000)
					longCopyShapes = false
				}},
			}
		},
		Floors: func(tier string) map[string]int64 {
			return map[string]int64{"copies": 20000, "refusals": 30, "id-grid-pairs": 3000, "kind:Actor": 500, "kind:OrderedCollectionPage": 500}
		},
		Assumptions: []string{"to and from are of the same kind and type with equivalent ids in the merge layers; merged properties are those the quantifier lists"},
	})
}
