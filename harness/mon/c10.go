package mon

import (
	"fmt"
	"reflect"
	"strings"

	vocab "github.com/go-ap/activitypub"

	"verif/harness/vmodel"
)

// C10: recipient computation de-duplicates without losing or inventing addressees.

const publicIRI = "https://www.w3.org/ns/activitystreams#Public"

// addressee tokens: 3 addressees in several presentations, the public collection, and nil
var rcptTokens = []string{"nil", "A", "A*", "A~", "B", "B*", "B~", "Pub"}

// rcptSalt makes the ids of every case fresh (a host label), so that nothing the library may remember about a pair of
// ids from an earlier case can decide a later one
var rcptSalt string

func rcptItem(tok string) vocab.Item {
	it := rcptItemBase(tok)
	if rcptSalt == "" || it == nil || tok == "Pub" {
		return it
	}
	salt := func(id vocab.IRI) vocab.IRI {
		// a host label: the shape of path, query and fragment stays what the token says
		s := string(id)
		i := strings.Index(s, "://")
		return vocab.IRI(s[:i+3] + rcptSalt + "." + s[i+3:])
	}
	switch v := it.(type) {
	case vocab.IRI:
		return salt(v)
	case *vocab.Actor:
		v.ID = salt(v.ID)
	case *vocab.Object:
		v.ID = salt(v.ID)
	case vocab.Object:
		v.ID = salt(v.ID)
		return v
	}
	return it
}

func rcptItemBase(tok string) vocab.Item {
	switch tok {
	case "nil":
		return nil
	case "A":
		return vocab.IRI("https://example.com/users/a")
	case "A*":
		return &vocab.Actor{ID: "https://example.com/users/a", Type: vocab.PersonType}
	case "A~":
		return vocab.IRI("http://EXAMPLE.com/users/a/")
	case "B":
		return vocab.IRI("https://social.example:8443/u/b?x=1")
	case "B*":
		return &vocab.Object{ID: "https://social.example:8443/u/b?x=1", Type: vocab.NoteType}
	case "B~":
		return vocab.IRI("HTTPS://social.example:8443/u/./b/?x=1#frag")
	case "C":
		return vocab.IRI("https://example.com/users/c")
	case "C*":
		return &vocab.Actor{ID: "https://example.com/users/c", Type: vocab.GroupType}
	case "Pub":
		return vocab.IRI(publicIRI)
	case "D":
		return vocab.IRI("https://d.example/")
	case "D~":
		return vocab.IRI("https://D.example")
	case "E*":
		return vocab.Object{ID: "https://e.example/e", Type: vocab.NoteType} // value form
	case "E":
		return vocab.IRI("https://e.example/e")
	}
	panic("unknown recipient token " + tok)
}

func rcptKey(it vocab.Item) string {
	k, ok := refKey(string(it.GetLink()), false)
	if !ok {
		return "raw:" + strings.ToLower(string(it.GetLink()))
	}
	return k
}

// compositions of n <= maxTotal into 5 list lengths
type rcptComp [5]int

func rcptComps(maxTotal int) []rcptComp {
	var out []rcptComp
	var rec func(i, left int, cur rcptComp)
	rec = func(i, left int, cur rcptComp) {
		if i == 5 {
			out = append(out, cur)
			return
		}
		for l := 0; l <= left; l++ {
			cur[i] = l
			rec(i+1, left-l, cur)
		}
	}
	rec(0, maxTotal, rcptComp{})
	return out
}

type rcptCase struct {
	Lists [5][]string // to cc bto bcc audience
	Actor string      // "" = unset
	Block string      // "" = not a Block; else the object token
	Kind  string
	// ViaGob: the value goes through the gob codec before Recipients() is called (an application reads it back from its store):
	// members are then other Go values with the same ids, and a nil entry may have become an empty placeholder - still nobody
	ViaGob bool
}

func (r rcptCase) String() string {
	names := []string{"to", "cc", "bto", "bcc", "audience"}
	sb := strings.Builder{}
	sb.WriteString(r.Kind)
	for i, l := range r.Lists {
		if len(l) > 0 {
			fmt.Fprintf(&sb, " %s=[%s]", names[i], strings.Join(l, " "))
		}
	}
	if r.Actor != "" {
		sb.WriteString(" actor=" + r.Actor)
	}
	if r.Block != "" {
		sb.WriteString(" Block object=" + r.Block)
	}
	return sb.String()
}

// runRecipients builds the value, calls Recipients() and compares with the scan model.
func runRecipients(c *Ctx, rc rcptCase) {
	rcptSalt = fmt.Sprintf("s%x", H64(rc.String())&0xffffff)
	defer func() { rcptSalt = "" }()
	ki := vmodel.KindIndex(rc.Kind)
	p := vmodel.Kinds[ki].New()
	v := reflect.ValueOf(p).Elem()
	v.FieldByName("ID").Set(reflect.ValueOf(vocab.IRI("https://example.com/the/value")))
	typ := vmodel.Kinds[ki].SpecificType()
	if rc.Block != "" {
		typ = "Block"
	}
	v.FieldByName("Type").Set(reflect.ValueOf(vocab.ActivityVocabularyType(typ)))
	fields := []string{"To", "CC", "Bto", "BCC", "Audience"}
	var items [5][]vocab.Item
	for i, f := range fields {
		if len(rc.Lists[i]) == 0 {
			// one in three of the lists that name nobody is there all the same, emptied (what Clean(), Remove of the last member or
			// an earlier de-duplication leave behind), a former member still sitting in its spare capacity
			if H64(rc.String()+f)%3 == 0 {
				backing := vocab.ItemCollection{vocab.IRI("https://" + rcptSalt + ".example.com/users/former-member")}
				v.FieldByName(f).Set(reflect.ValueOf(backing[:0]))
				c.Count("emptied-lists", 1)
			}
			continue
		}
		l := make(vocab.ItemCollection, 0, len(rc.Lists[i])+2)
		for _, t := range rc.Lists[i] {
			it := rcptItem(t)
			l = append(l, it)
			items[i] = append(items[i], it)
		}
		v.FieldByName(f).Set(reflect.ValueOf(l))
	}
	hasActor := rc.Kind == "IntransitiveActivity" || rc.Kind == "Question"
	var actor vocab.Item
	if rc.Actor != "" && (hasActor || rc.Kind == "Activity") {
		actor = rcptItem(rc.Actor)
		v.FieldByName("Actor").Set(reflect.ValueOf(actor))
	}
	var blocked vocab.Item
	if rc.Block != "" {
		blocked = rcptItem(rc.Block)
		v.FieldByName("Object").Set(reflect.ValueOf(blocked))
	}
	// every other case: first the comparisons an application makes while it builds such a value (strict, scheme-sensitive,
	// through ItemsEqual and IRI.Equals) - read-only calls that must not influence what Recipients() decides afterwards
	if H64(rc.String())%2 == 0 {
		var all []vocab.Item
		for i := range items {
			all = append(all, items[i]...)
		}
		if actor != nil {
			all = append(all, actor)
		}
		c.Guard("warm-up comparisons", func() {
			for _, a := range all {
				for _, b := range all {
					if a == nil || b == nil {
						continue
					}
					_ = a.GetLink().Equals(b.GetLink(), true) // the strict comparison comes first: it is the one whose answer differs
					_ = vocab.ItemsEqual(a, b)
				}
			}
		})
		c.Count("warmed-up-cases", 1)
	}
	// ---- reference model ----
	var seen []string
	var wantRet []string
	var wantLists [4][]vocab.Item
	isSeen := func(k string) bool {
		for _, s := range seen {
			if s == k {
				return true
			}
		}
		return false
	}
	blockedKey := ""
	if blocked != nil {
		blockedKey = rcptKey(blocked)
	}
	scan := func(i int, l []vocab.Item, keep bool) {
		for _, e := range l {
			if e == nil {
				if keep {
					wantLists[i] = append(wantLists[i], e)
				}
				continue
			}
			k := rcptKey(e)
			if blockedKey != "" && k == blockedKey {
				continue // a Block's object is addressed nowhere afterwards
			}
			if isSeen(k) {
				continue
			}
			seen = append(seen, k)
			wantRet = append(wantRet, k)
			if keep {
				wantLists[i] = append(wantLists[i], e)
			}
		}
	}
	for i := 0; i < 4; i++ {
		scan(i, items[i], true)
	}
	if hasActor && actor != nil {
		scan(-1, []vocab.Item{actor}, false)
	}
	scan(-1, items[4], false)

	if rc.ViaGob {
		var b []byte
		var err error
		var back vocab.Item
		c.Pending("gob round trip before Recipients " + rc.String())
		if c.Guard("GobEncode/GobDecode", func() {
			if b, err = vocab.GobEncode(p.(vocab.Item)); err == nil {
				back, err = vocab.GobDecode(b)
			}
		}) || err != nil || back == nil || reflect.TypeOf(back) != reflect.TypeOf(p) {
			c.Count("via-gob-skipped", 1)
			return
		}
		c.Count("via-gob", 1)
		p = back
		v = reflect.ValueOf(p).Elem()
	}
	// ---- the real call ----
	hr, ok := p.(vocab.HasRecipients)
	if !ok {
		c.Fail("rcpt|"+rc.Kind+"|no-Recipients", rc.Kind+" does not implement Recipients()", nil)
		return
	}
	label := rc.String()
	var ret vocab.ItemCollection
	c.Pending("Recipients " + label)
	if c.Guard(rc.Kind+".Recipients", func() { ret = hr.Recipients() }) {
		return
	}
	c.Eval(1)
	c.Count("calls", 1)
	c.Count("kind:"+rc.Kind, 1)
	pat := rcptPattern(rc)
	var gotRet []string
	for _, e := range ret {
		if e == nil {
			gotRet = append(gotRet, "<nil>")
			continue
		}
		if rc.ViaGob && len(e.GetLink()) == 0 {
			gotRet = append(gotRet, "<nobody>")
			continue
		}
		gotRet = append(gotRet, rcptKey(e))
	}
	if strings.Join(gotRet, " , ") != strings.Join(wantRet, " , ") {
		effect := "returned-list-differs"
		switch {
		case len(gotRet) < len(wantRet):
			effect = "addressee-lost"
		case len(gotRet) > len(wantRet):
			effect = "addressee-invented-or-repeated"
		default:
			effect = "order-differs"
		}
		c.Fail(fmt.Sprintf("rcpt|%s|returned|%s|%s", kindClass(rc.Kind), pat, effect), fmt.Sprintf("Recipients() of %s returned %v, scan model says %v", label, gotRet, wantRet),
			map[string]any{"case": label, "got": gotRet, "want": wantRet})
	}
	for i := 0; i < 4; i++ {
		got := v.FieldByName(fields[i]).Interface().(vocab.ItemCollection)
		same := len(got) == len(wantLists[i])
		if same {
			for k := range got {
				if rc.ViaGob {
					// after the codec: the same addressee by id; what was a nil entry is nil or an empty placeholder
					w := wantLists[i][k]
					switch {
					case w == nil:
						same = same && (vocab.IsNil(got[k]) || len(got[k].GetLink()) == 0)
					case vocab.IsNil(got[k]):
						same = false
					default:
						same = same && rcptKey(got[k]) == rcptKey(w)
					}
					continue
				}
				if !sameItem(got[k], wantLists[i][k]) {
					same = false
				}
			}
		}
		if !same {
			c.Fail(fmt.Sprintf("rcpt|%s|%s-left-behind|%s", kindClass(rc.Kind), strings.ToLower(fields[i]), pat),
				fmt.Sprintf("after Recipients() of %s, %s is %s, expected %s (first mention kept, order kept, nil entries in place)", label, fields[i], itemsDesc(got), itemsDesc(wantLists[i])),
				map[string]any{"case": label, "list": fields[i], "got": itemsDesc(got), "want": itemsDesc(wantLists[i])})
		}
	}
	if blocked != nil {
		for _, f := range fields {
			for _, e := range v.FieldByName(f).Interface().(vocab.ItemCollection) {
				if !vocab.IsNil(e) && rcptKey(e) == blockedKey {
					c.Fail("rcpt|Activity|block|still-addressed-in-"+strings.ToLower(f), fmt.Sprintf("after Recipients() of %s the blocked object is still in %s", label, f), map[string]any{"case": label})
				}
			}
		}
	}
}

func kindClass(k string) string {
	switch k {
	case "IntransitiveActivity", "Question":
		return "with-actor"
	case "Activity":
		return "Activity"
	}
	return "object-like"
}

// rcptPattern abstracts a case: are there nils, duplicates within a list, across lists, variants.
func rcptPattern(rc rcptCase) string {
	var parts []string
	hasNil, within, across, variant, emb := false, false, false, false, false
	seenAll := map[string]int{}
	for i, l := range rc.Lists {
		seenHere := map[string]bool{}
		for _, t := range l {
			if t == "nil" {
				hasNil = true
				continue
			}
			base := strings.TrimRight(t, "*~")
			if strings.HasSuffix(t, "~") {
				variant = true
			}
			if strings.HasSuffix(t, "*") {
				emb = true
			}
			if seenHere[base] {
				within = true
			}
			if j, ok := seenAll[base]; ok && j != i {
				across = true
			}
			seenHere[base] = true
			seenAll[base] = i
		}
	}
	for n, b := range map[string]bool{"nil": hasNil, "dup-within": within, "dup-across": across, "variant": variant, "embedded": emb} {
		if b {
			parts = append(parts, n)
		}
	}
	sortStrings(parts)
	if rc.Actor != "" {
		parts = append(parts, "actor")
	}
	if rc.Block != "" {
		parts = append(parts, "block")
	}
	if len(parts) == 0 {
		return "plain"
	}
	return strings.Join(parts, "+")
}

func sameItem(a, b vocab.Item) bool {
	if a == nil || b == nil {
		return a == nil && b == nil
	}
	ta, tb := reflect.TypeOf(a), reflect.TypeOf(b)
	if ta != tb {
		return false
	}
	if ta.Kind() == reflect.Pointer {
		return reflect.ValueOf(a).Pointer() == reflect.ValueOf(b).Pointer()
	}
	return reflect.DeepEqual(a, b)
}

func itemsDesc(l []vocab.Item) string {
	s := make([]string, len(l))
	for i, e := range l {
		if e == nil {
			s[i] = "nil"
		} else {
			s[i] = fmt.Sprintf("%T(%s)", e, e.GetLink())
		}
	}
	return "[" + strings.Join(s, " ") + "]"
}

func sortStrings(s []string) {
	for i := 1; i < len(s); i++ {
		for j := i; j > 0 && s[j] < s[j-1]; j-- {
			s[j], s[j-1] = s[j-1], s[j]
		}
	}
}

var rcptKinds = func() []string {
	var out []string
	for _, k := range vmodel.Kinds {
		if _, ok := k.New().(vocab.HasRecipients); ok {
			out = append(out, k.Name)
		}
	}
	return out
}()

func init() {
	const maxTotal = 4
	comps := rcptComps(maxTotal)
	nt := len(rcptTokens)
	// cumulative counts
	var cum []int
	total := 0
	for _, cp := range comps {
		n := cp[0] + cp[1] + cp[2] + cp[3] + cp[4]
		cnt := 1
		for i := 0; i < n; i++ {
			cnt *= nt
		}
		cum = append(cum, total)
		total += cnt
	}
	decode := func(idx int) rcptCase {
		ci := 0
		for ci+1 < len(cum) && cum[ci+1] <= idx {
			ci++
		}
		rest := idx - cum[ci]
		var rc rcptCase
		for i := 0; i < 5; i++ {
			for k := 0; k < comps[ci][i]; k++ {
				rc.Lists[i] = append(rc.Lists[i], rcptTokens[rest%nt])
				rest /= nt
			}
		}
		return rc
	}
	actorToks := []string{"", "A", "A*", "C", "B~"}
	blockToks := []string{"A", "B*", "A~", "C*"}
	extraToks := []string{"nil", "A", "A*", "A~", "B", "B*", "B~", "Pub", "C", "C*", "D", "D~", "E", "E*"}
	Register(&Prop{
		ID: "C10",
		Rule: fmt.Sprintf("reference scan model (to, cc, bto, bcc, [actor: IntransitiveActivity/Question], audience; key = IRI normaliser without scheme; first mention kept; nil entries in place; a Block's object removed everywhere first); exhaustive layer on Object: all %d assignments of total length <= %d over the five lists from %d tokens (2 addressees x {IRI, embedded, scheme/case/trailing-slash variant}, the public collection, nil); covering layer: every %dth assignment on each of the %d types with Recipients() x actor/Block variants; random layer: lists up to 8 over 14 tokens; item lists of 1-3 member objects through ItemCollection.Recipients(); the returned list (sequence of keys) and the four lists left behind (by identity of surviving entries) are compared; distinct = the case; non-trivial = some addressee mentioned more than once or a nil entry",
			total, maxTotal, nt, 97, len(rcptKinds)),
		Layers: func(tier string) []Layer {
			stride := 97
			return []Layer{
				{Name: "object-exhaustive", N: total, Exhaustive: true, Run: func(c *Ctx, idx int) {
					rc := decode(idx)
					rc.Kind = "Object"
					pat := rcptPattern(rc)
					c.Distinct(rc.String(), pat != "plain")
					c.Count("pattern:"+pat, 1)
					if idx%60000 == 5 {
						c.Sample(map[string]any{"case": rc.String()})
					}
					runRecipients(c, rc)
				}},
				{Name: "types-covering", N: (total/stride + 1) * len(rcptKinds), Exhaustive: true, Run: func(c *Ctx, idx int) {
					kind := rcptKinds[idx%len(rcptKinds)]
					j := (idx / len(rcptKinds)) * stride
					if j >= total {
						j = total - 1
					}
					rc := decode(j)
					rc.Kind = kind
					k := idx / len(rcptKinds)
					if kind == "IntransitiveActivity" || kind == "Question" || kind == "Activity" {
						rc.Actor = actorToks[k%len(actorToks)]
					}
					if kind == "Activity" && k%3 == 0 {
						rc.Block = blockToks[(k/3)%len(blockToks)]
						// the statement's domain: members carry ids; nil entries next to a Block are still in the domain
					}
					c.Distinct(rc.String(), true)
					if idx%9000 == 3 {
						c.Sample(map[string]any{"case": rc.String()})
					}
					runRecipients(c, rc)
				}},
				{Name: "list-of-objects", N: tierN(tier, 20000, 200000), Run: func(c *Ctx, idx int) {
					// ItemCollection.Recipients(): every member object is de-duplicated on its own, the returned list is the
					// union in order of first mention
					nm := 1 + c.R.Intn(3)
					var members vocab.ItemCollection
					var want []string
					seenAll := map[string]bool{}
					var desc []string
					type left struct {
						obj   *vocab.Object
						lists [4][]vocab.Item
					}
					var lefts []left
					for m := 0; m < nm; m++ {
						o := &vocab.Object{ID: vocab.IRI(fmt.Sprintf("https://example.com/member/%d", m)), Type: vocab.NoteType}
						var lists [5][]vocab.Item
						var toks [5][]string
						for i := 0; i < 5; i++ {
							for k := c.R.Intn(4); k > 0; k-- {
								t := extraToks[c.R.Intn(len(extraToks))]
								toks[i] = append(toks[i], t)
								lists[i] = append(lists[i], rcptItem(t))
							}
						}
						o.To, o.CC, o.Bto, o.BCC, o.Audience = append(vocab.ItemCollection{}, lists[0]...), append(vocab.ItemCollection{}, lists[1]...), append(vocab.ItemCollection{}, lists[2]...), append(vocab.ItemCollection{}, lists[3]...), append(vocab.ItemCollection{}, lists[4]...)
						desc = append(desc, fmt.Sprintf("member%d to=%v cc=%v bto=%v bcc=%v audience=%v", m, toks[0], toks[1], toks[2], toks[3], toks[4]))
						// member model
						seen := map[string]bool{}
						l := left{obj: o}
						for i := 0; i < 5; i++ {
							for _, e := range lists[i] {
								if e == nil {
									if i < 4 {
										l.lists[i] = append(l.lists[i], e)
									}
									continue
								}
								k := rcptKey(e)
								if seen[k] {
									continue
								}
								seen[k] = true
								if i < 4 {
									l.lists[i] = append(l.lists[i], e)
								}
								if !seenAll[k] {
									seenAll[k] = true
									want = append(want, k)
								}
							}
						}
						lefts = append(lefts, l)
						members = append(members, o)
					}
					label := "ItemCollection[" + strings.Join(desc, " ; ") + "]"
					c.Distinct(label, true)
					var ret vocab.ItemCollection
					c.Pending("ItemCollection.Recipients")
					if c.Guard("ItemCollection.Recipients", func() { ret = members.Recipients() }) {
						return
					}
					c.Eval(1)
					c.Count("calls", 1)
					c.Count("kind:ItemCollection", 1)
					var got []string
					for _, e := range ret {
						if e == nil {
							got = append(got, "<nil>")
						} else {
							got = append(got, rcptKey(e))
						}
					}
					if strings.Join(got, " , ") != strings.Join(want, " , ") {
						c.Fail("rcpt|ItemCollection|returned|differs", fmt.Sprintf("Recipients() of %s returned %v, model says %v", label, got, want), map[string]any{"case": label, "got": got, "want": want})
					}
					for _, l := range lefts {
						for i, gl := range []vocab.ItemCollection{l.obj.To, l.obj.CC, l.obj.Bto, l.obj.BCC} {
							same := len(gl) == len(l.lists[i])
							if same {
								for k := range gl {
									if !sameItem(gl[k], l.lists[i][k]) {
										same = false
									}
								}
							}
							if !same {
								c.Fail(fmt.Sprintf("rcpt|ItemCollection|member-%s-left-behind", []string{"to", "cc", "bto", "bcc"}[i]), fmt.Sprintf("after Recipients() of %s a member's %s is %s, expected %s", label, []string{"to", "cc", "bto", "bcc"}[i], itemsDesc(gl), itemsDesc(l.lists[i])), map[string]any{"case": label})
							}
						}
					}
				}},
				{Name: "read-back-from-gob", N: (total/stride + 1) * len(rcptKinds), Exhaustive: true, Run: func(c *Ctx, idx int) {
					// the types-covering cases once more, each value put through the gob codec first
					kind := rcptKinds[idx%len(rcptKinds)]
					j := (idx / len(rcptKinds)) * stride
					if j >= total {
						j = total - 1
					}
					rc := decode(j)
					rc.Kind = kind
					rc.ViaGob = true
					k := idx / len(rcptKinds)
					if kind == "IntransitiveActivity" || kind == "Question" || kind == "Activity" {
						rc.Actor = actorToks[k%len(actorToks)]
					}
					c.Distinct("gob|"+rc.String(), true)
					runRecipients(c, rc)
				}},
				{Name: "random", N: tierN(tier, 50000, 1000000), Run: func(c *Ctx, idx int) {
					var rc rcptCase
					rc.Kind = rcptKinds[c.R.Intn(len(rcptKinds))]
					for i := 0; i < 5; i++ {
						for k := c.R.Intn(5) * c.R.Intn(3); k > 0; k-- {
							rc.Lists[i] = append(rc.Lists[i], extraToks[c.R.Intn(len(extraToks))])
						}
					}
					if rc.Kind == "IntransitiveActivity" || rc.Kind == "Question" || rc.Kind == "Activity" {
						rc.Actor = []string{"", "A", "A*", "C", "C*", "E*", "D~"}[c.R.Intn(7)]
					}
					if rc.Kind == "Activity" && c.R.Intn(3) == 0 {
						rc.Block = []string{"A", "B*", "A~", "C*", "E", "E*", "D"}[c.R.Intn(7)]
					}
					c.Distinct(rc.String(), true)
					runRecipients(c, rc)
				}},
			}
		},
		Floors: func(tier string) map[string]int64 {
			return map[string]int64{"calls": int64(total), "kind:Question": 100, "kind:Activity": 100}
		},
		Assumptions: []string{
			"audience is not required to be unchanged by Recipients() (the statement does not say so)",
			"domain: members carry ids; actor is nil, an IRI or one embedded actor; a Block's object is an IRI or one embedded object",
		},
	})
}
