package mon

import (
	"bytes"
	"embed"
	"fmt"
	"math/rand"
	"sort"

	vocab "github.com/go-ap/activitypub"

	"verif/harness/vmodel"
)

//go:embed mocks/*.json
var mockFS embed.FS

type mockDoc struct {
	Name string
	Data []byte
}

var mocks = func() []mockDoc {
	ents, _ := mockFS.ReadDir("mocks")
	var out []mockDoc
	for _, e := range ents {
		b, err := mockFS.ReadFile("mocks/" + e.Name())
		if err == nil && len(bytes.TrimSpace(b)) > 0 {
			out = append(out, mockDoc{e.Name(), b})
		}
	}
	sort.Slice(out, func(i, j int) bool { return out[i].Name < out[j].Name })
	return out
}()

// docCase decodes an independently written document and compares with the model it was written from.
func docCase(c *Ctx, x any, label string, w *vmodel.DocWriter) {
	want := vmodel.Canon(x, vmodel.JSON)
	doc := []byte(w.Write(want))
	fp := vmodel.Fingerprint(want)
	c.Distinct("doc|"+fp+"|"+fmt.Sprint(w.Choices), want != nil && len(want.Props) > 2)
	if c.WantSample() {
		c.Sample(map[string]any{"case": label, "document": clipS(string(doc), 500), "shape_choices": w.Choices})
	}
	if _, _, err := vmodel.StrictParse(doc); err != nil {
		panic("harness bug: generated document is not valid JSON: " + err.Error())
	}
	var got vocab.Item
	var err error
	c.Pending("decode " + label)
	if c.Guard("UnmarshalJSON", func() { got, err = vocab.UnmarshalJSON(doc) }) {
		return
	}
	c.Eval(1)
	c.Count("documents", 1)
	if err != nil {
		c.Fail("doc|decode-error|"+kindOf(x), fmt.Sprintf("decoding the document for %s failed: %v", label, err), map[string]any{"case": label, "document": clipB(doc), "error": err.Error()})
		return
	}
	gotN := vmodel.Canon(got, vmodel.JSON)
	keepDecoded(c, "doc", vmodel.JSON, got, label)
	for _, d := range vmodel.Diff(want, gotN) {
		c.Fail("doc|"+d.Sig(), fmt.Sprintf("document decode: %s %s (document says %s, decoded %s)", d.Path, d.Kind, d.WantShape, d.GotShape),
			map[string]any{"case": label, "path": d.Path, "want": d.Want, "got": d.Got, "document": clipB(doc), "shape_choices": w.Choices})
	}
	fixpoint(c, got, label, doc)
}

// docVariants: the same document through the typed entry point of its kind, with pass-through hooks installed, and as the
// object of an activity / a member of a collection (the generic item path).
func docVariants(c *Ctx, x any, label string, w *vmodel.DocWriter) {
	docCase(c, x, label, w)
	it, isItem := x.(vocab.Item)
	if !isItem {
		return
	}
	want := vmodel.Canon(x, vmodel.JSON)
	doc := []byte(w.Write(want))
	var got any
	var err error
	c.Pending("typed decode " + label)
	if !c.Guard("T.UnmarshalJSON", func() { got, err = callUnmarshal(x, "UnmarshalJSON", doc) }) {
		c.Eval(1)
		c.Count("typed-decodes", 1)
		if err != nil {
			c.Fail("doc|typed-decode-error|"+kindOf(x), fmt.Sprintf("(*%s).UnmarshalJSON of the document for %s failed: %v", kindOf(x), label, err), map[string]any{"case": label, "document": clipB(doc), "error": err.Error()})
		} else {
			for _, d := range vmodel.Diff(want, vmodel.Canon(got, vmodel.JSON)) {
				c.Fail("doc|typed|"+d.Sig(), fmt.Sprintf("typed document decode: %s %s (document says %s, decoded %s)", d.Path, d.Kind, d.WantShape, d.GotShape),
					map[string]any{"case": label, "path": d.Path, "want": d.Want, "got": d.Got, "document": clipB(doc)})
			}
		}
	}
	func() {
		defer passThroughHooks()()
		docCase(c, x, label+" (pass-through hooks)", w)
	}()
	host := vocab.IRI("https://example.com/outer/" + fmt.Sprint(len(label)))
	docCase(c, &vocab.Activity{ID: host, Type: vocab.LikeType, Object: it}, label+" (as activity.object)", w)
	docCase(c, &vocab.OrderedCollection{ID: host, Type: vocab.OrderedCollectionType, TotalItems: 2,
		OrderedItems: vocab.ItemCollection{vocab.IRI("https://example.com/outer/first"), it}}, label+" (as collection member)", w)
}

// fixpoint: v1=dec(D), b1=enc(v1), v2=dec(b1), b2=enc(v2): N(v1)=N(v2) and b1=b2.
func fixpoint(c *Ctx, v1 vocab.Item, label string, doc []byte) {
	if v1 == nil {
		return
	}
	var b1, b2 []byte
	var v2 vocab.Item
	var err error
	c.Pending("fixpoint " + label)
	if c.Guard("MarshalJSON", func() { b1, err = vocab.MarshalJSON(v1) }) {
		return
	}
	c.Eval(1)
	if err != nil {
		c.Fail("fix|encode-error|"+kindOf(v1), fmt.Sprintf("re-encoding the decoded %s failed: %v", label, err), map[string]any{"case": label, "document": clipB(doc), "error": err.Error()})
		return
	}
	if c.Guard("UnmarshalJSON", func() { v2, err = vocab.UnmarshalJSON(b1) }) {
		return
	}
	c.Eval(1)
	if err != nil {
		c.Fail("fix|decode-error|"+kindOf(v1), fmt.Sprintf("decoding the re-encoded %s failed: %v", label, err), map[string]any{"case": label, "bytes": clipB(b1), "error": err.Error()})
		return
	}
	n1, n2 := vmodel.Canon(v1, vmodel.JSON), vmodel.Canon(v2, vmodel.JSON)
	for _, d := range vmodel.Diff(n1, n2) {
		c.Fail("fix|"+d.Sig(), fmt.Sprintf("decode(encode(v)) != v at %s: %s", d.Path, d.Kind),
			map[string]any{"case": label, "path": d.Path, "want": d.Want, "got": d.Got, "bytes": clipB(b1)})
	}
	if c.Guard("MarshalJSON", func() { b2, err = vocab.MarshalJSON(v2) }) {
		return
	}
	c.Eval(1)
	c.Count("fixpoints", 1)
	if err != nil || !bytes.Equal(b1, b2) {
		c.Fail("fix|bytes-change|"+kindOf(v1), fmt.Sprintf("the encoded bytes of %s still change on the second iteration", label),
			map[string]any{"case": label, "b1": clipB(b1), "b2": clipB(b2), "error": fmt.Sprint(err)})
	}
}

func newDocWriter(r *rand.Rand) *vmodel.DocWriter {
	return &vmodel.DocWriter{R: r, Shuffle: r.Intn(2) == 0, Whitespace: r.Intn(2) == 0, UEscapes: r.Intn(3) == 0, ShapeFree: true}
}

func init() {
	const mutPerMock = 40
	Register(&Prop{
		ID: "C05",
		Rule: "cases: the abstract values of C01 (exhaustive kind x field x shape, pairs, seeded random nested) serialised by an independent writer (encoding/json scalars) with document-side shape freedom (item as string / object / one-element array, list property as bare element or array, text as plain string or language map, zone offsets, random member order, whitespace, \\u escapes); expectation = the canonical tree the document was written from; " +
			"plus the repository's mock documents and structure-preserving mutations of them under the metamorphic oracle N(dec(mutated)) = N(dec(original)); fixpoint oracle on everything; distinct = (tree fingerprint, shape choices); non-trivial = a property beyond id/type",
		Layers: func(tier string) []Layer {
			return []Layer{
				{Name: "single", N: len(singleJSON) * 2, Exhaustive: true, Run: func(c *Ctx, idx int) {
					sc := singleJSON[idx/2]
					g := caseGen(c, true, idx/2)
					x := g.BuildSingle(sc)
					w := newDocWriter(rand.New(rand.NewSource(int64(idx))))
					if idx%2 == 0 {
						w = &vmodel.DocWriter{R: rand.New(rand.NewSource(1))} // canonical presentation
					}
					c.Count("field:"+sc.Kind.Name+"."+sc.Field.Term, 1)
					docVariants(c, x, sc.String(), w)
				}},
				{Name: "pair", N: len(pairCases), Exhaustive: true, Run: func(c *Ctx, idx int) {
					pc := pairCases[idx]
					g := caseGen(c, true, idx)
					x := g.BuildPair(pc, false)
					docCase(c, x, pc.String(), newDocWriter(rand.New(rand.NewSource(int64(idx)))))
				}},
				{Name: "all-names", N: 61 * 4, Exhaustive: true, Run: func(c *Ctx, idx int) {
					x, label := allNamesValue(caseGen(c, true, idx), idx)
					docCase(c, x, label, newDocWriter(rand.New(rand.NewSource(int64(idx)))))
				}},
				{Name: "constructed", N: len(allConstructed), Exhaustive: true, Run: func(c *Ctx, idx int) {
					cv := allConstructed[idx]
					c.Count("constructed", 1)
					docVariants(c, cv.Make(), "constructed "+cv.Label, newDocWriter(rand.New(rand.NewSource(int64(idx)))))
				}},
				{Name: "bare-embedded", N: len(bareCases), Exhaustive: true, Run: func(c *Ctx, idx int) {
					bc := bareCases[idx]
					inner, host := caseGen(c, true, idx).BuildBare(bc, false)
					c.Count("bare-embedded", 1)
					w := newDocWriter(rand.New(rand.NewSource(int64(idx))))
					docCase(c, inner, bc.String()+" (top level)", w)
					docCase(c, host, bc.String()+" (as activity.object and in tag)", w)
				}},
				{Name: "deep", N: tierN(tier, 160, 3000), Run: func(c *Ctx, idx int) {
					g := caseGen(c, false, idx)
					g.PSet = 0.12
					k := vmodel.Kinds[idx%len(vmodel.Kinds)]
					x := g.Struct(k, 5+idx%3, true)
					docCase(c, x, fmt.Sprintf("deep %s", k.Name), newDocWriter(c.R))
				}},
				{Name: "random", N: tierN(tier, 15000, 60000), Run: func(c *Ctx, idx int) {
					g := caseGen(c, false, idx)
					x, label := randomValue(g, tierN(tier, 2, 3))
					docCase(c, x, label, newDocWriter(c.R))
				}},
				{Name: "mocks", N: len(mocks) * mutPerMock * tierN(tier, 1, 10), Run: func(c *Ctx, idx int) {
					m := mocks[idx%len(mocks)]
					var orig vocab.Item
					var err error
					if c.Guard("UnmarshalJSON", func() { orig, err = vocab.UnmarshalJSON(m.Data) }) {
						return
					}
					c.Eval(1)
					c.Count("mock-decodes", 1)
					if err != nil {
						c.Fail("mock|decode-error|"+m.Name, "mock document does not decode: "+err.Error(), map[string]any{"mock": m.Name})
						return
					}
					root, _, perr := vmodel.StrictParse(m.Data)
					if perr != nil {
						return
					}
					w := newDocWriter(c.R)
					mut := []byte(w.WriteJVal(root))
					c.Distinct("mock|"+m.Name+"|"+string(mut), true)
					if idx < len(mocks) {
						fixpoint(c, orig, "mock "+m.Name, m.Data)
					}
					var got vocab.Item
					if c.Guard("UnmarshalJSON", func() { got, err = vocab.UnmarshalJSON(mut) }) {
						return
					}
					c.Eval(1)
					c.Count("mock-mutations", 1)
					if err != nil {
						c.Fail("mock|mutated-decode-error|"+m.Name, "structure-preserving mutation of "+m.Name+" does not decode: "+err.Error(), map[string]any{"mock": m.Name, "mutated": clipB(mut)})
						return
					}
					for _, d := range vmodel.Diff(vmodel.Canon(orig, vmodel.JSON), vmodel.Canon(got, vmodel.JSON)) {
						c.Fail("mock|"+d.Sig(), fmt.Sprintf("structure-preserving mutation of %s decodes differently at %s: %s", m.Name, d.Path, d.Kind),
							map[string]any{"mock": m.Name, "path": d.Path, "want": d.Want, "got": d.Got, "mutated": clipB(mut), "mutations": w.Choices})
					}
				}},
			}
		},
		Floors: func(tier string) map[string]int64 {
			return map[string]int64{"documents": 30000, "fixpoints": 30000, "mock-mutations": 500}
		},
		Assumptions: []string{
			"the document writer (harness/vmodel/doc.go, scalars through encoding/json) writes only shapes the statement admits: absolute IRIs, language maps under the *Map term, whole seconds, no @context",
			"mock mutations are structure preserving: member permutation, whitespace, \\u escapes, scalar <-> one-element array in single-item positions",
		},
	})
}
