package mon

import (
	"bytes"
	"encoding/json"
	"fmt"
	"reflect"
	"strings"
	"sync"
	"sync/atomic"

	vocab "github.com/go-ap/activitypub"

	"verif/harness/vmodel"
)

// C12: read-only operations never modify their arguments and are race-free.

type roOp struct {
	Name string
	// Run applies the operation and returns a digest of its result (for the concurrent = sequential comparison).
	Run func(x vocab.Item) string
	// Run2, when set, also receives a variant copy of x: Which = "" every IRI in another, equivalent presentation;
	// "reordered" the same members and language entries in reverse order; "edited" one text and one member changed
	Run2  func(x, variant vocab.Item) string
	Which string
}

type variantSet struct{ Equiv, Reordered, Edited vocab.Item }

func makeVariants(x vocab.Item) *variantSet {
	return &variantSet{Equiv: variantCopy(x), Reordered: alteredCopy(x, false), Edited: alteredCopy(x, true)}
}

func (vs *variantSet) all() []vocab.Item {
	if vs == nil {
		return nil
	}
	return []vocab.Item{vs.Equiv, vs.Reordered, vs.Edited}
}

func (o roOp) apply(x vocab.Item, vs *variantSet) string {
	if o.Run2 != nil {
		variant := x
		if vs != nil {
			switch o.Which {
			case "reordered":
				variant = vs.Reordered
			case "edited":
				variant = vs.Edited
			default:
				variant = vs.Equiv
			}
		}
		if variant == nil {
			variant = x
		}
		return o.Run2(x, variant)
	}
	return o.Run(x)
}

// alteredCopy deep-copies x and reverses every item list and every language list in it (two or more entries); with edit it
// also changes the text of the last language entry of each list: comparisons then leave the position-by-position path.
func alteredCopy(x vocab.Item, edit bool) vocab.Item {
	c := vmodel.DeepCopy(x)
	if c == nil {
		return nil
	}
	v := reflect.ValueOf(c)
	if v.Kind() != reflect.Pointer {
		p := reflect.New(v.Type())
		p.Elem().Set(v)
		alterLists(p.Elem(), edit, 0)
		return p.Elem().Interface().(vocab.Item)
	}
	alterLists(v, edit, 0)
	return c.(vocab.Item)
}

func alterLists(v reflect.Value, edit bool, depth int) {
	if depth > 4000 {
		return
	}
	switch v.Kind() {
	case reflect.Pointer:
		if !v.IsNil() {
			alterLists(v.Elem(), edit, depth+1)
		}
	case reflect.Interface:
		if v.IsNil() {
			return
		}
		e := v.Elem()
		if e.Kind() == reflect.Pointer {
			alterLists(e, edit, depth+1)
		} else if e.Kind() == reflect.Slice && v.CanSet() {
			n := reflect.New(e.Type()).Elem()
			n.Set(e)
			alterLists(n, edit, depth+1)
			v.Set(n)
		}
	case reflect.Struct:
		if v.Type() == vmodel.TimeT {
			return
		}
		for i := 0; i < v.NumField(); i++ {
			if v.Type().Field(i).IsExported() {
				alterLists(v.Field(i), edit, depth+1)
			}
		}
	case reflect.Slice:
		if !v.CanSet() || v.Len() == 0 {
			return
		}
		switch v.Type() {
		case vmodel.NlvT:
			old := v.Interface().(vocab.NaturalLanguageValues)
			n := make(vocab.NaturalLanguageValues, 0, len(old))
			for i := len(old) - 1; i >= 0; i-- {
				n = append(n, vocab.LangRefValue{Ref: old[i].Ref, Value: append(vocab.Content{}, old[i].Value...)})
			}
			if edit {
				n[len(n)-1].Value = append(n[len(n)-1].Value, " (edited)"...)
			}
			v.Set(reflect.ValueOf(n))
		case vmodel.IcT:
			old := v.Interface().(vocab.ItemCollection)
			n := make(vocab.ItemCollection, 0, len(old)+1)
			for i := len(old) - 1; i >= 0; i-- {
				n = append(n, old[i])
			}
			v.Set(reflect.ValueOf(n))
			for i := 0; i < v.Len(); i++ {
				alterLists(v.Index(i), edit, depth+1)
			}
			if edit {
				v.Set(reflect.ValueOf(append(n, vocab.IRI("https://example.com/one-more-member"))))
			}
		}
	}
}

// variantCopy deep-copies x and rewrites every IRI without query or fragment into an equivalent presentation (trailing
// slash), so that comparisons between x and the copy take the parsing path of IRI equality everywhere.
func variantCopy(x vocab.Item) vocab.Item {
	c := vmodel.DeepCopy(x)
	if c == nil {
		return nil
	}
	v := reflect.ValueOf(c)
	if v.Kind() != reflect.Pointer {
		p := reflect.New(v.Type())
		p.Elem().Set(v)
		rewriteIRIs(p.Elem(), 0)
		return p.Elem().Interface().(vocab.Item)
	}
	rewriteIRIs(v, 0)
	return c.(vocab.Item)
}

func rewriteIRIs(v reflect.Value, depth int) {
	if depth > 4000 {
		return
	}
	switch v.Kind() {
	case reflect.Pointer:
		if !v.IsNil() {
			rewriteIRIs(v.Elem(), depth+1)
		}
	case reflect.Interface:
		if v.IsNil() {
			return
		}
		if iri, ok := v.Interface().(vocab.IRI); ok {
			if v.CanSet() {
				v.Set(reflect.ValueOf(vocab.Item(variantIRI(iri))))
			}
			return
		}
		e := v.Elem()
		if e.Kind() == reflect.Pointer {
			rewriteIRIs(e, depth+1)
		} else if e.Kind() == reflect.Slice && v.CanSet() {
			n := reflect.New(e.Type()).Elem()
			n.Set(e)
			rewriteIRIs(n, depth+1)
			v.Set(n)
		}
	case reflect.Struct:
		if v.Type() == vmodel.TimeT {
			return
		}
		for i := 0; i < v.NumField(); i++ {
			if v.Type().Field(i).IsExported() {
				rewriteIRIs(v.Field(i), depth+1)
			}
		}
	case reflect.Slice:
		for i := 0; i < v.Len(); i++ {
			rewriteIRIs(v.Index(i), depth+1)
		}
	case reflect.String:
		if v.Type() == vmodel.IriT && v.CanSet() {
			v.SetString(string(variantIRI(vocab.IRI(v.String()))))
		}
	}
}

func variantIRI(i vocab.IRI) vocab.IRI {
	s := string(i)
	if i := strings.Index(s, "?a=1&b=2"); i >= 0 {
		return vocab.IRI(s[:i] + "?b=2&a=1")
	}
	if s == "" || strings.ContainsAny(s, "?#") || !strings.HasPrefix(s, "http") {
		return i
	}
	return vocab.IRI(s + "/")
}

func digestBytes(b []byte, err error) string {
	if err != nil {
		return "err:" + err.Error()
	}
	return fmt.Sprintf("%d:%x", len(b), H64(string(b)))
}

// gob bytes depend on map iteration order: digest the decoded canonical tree instead
func digestGob(b []byte, err error) string {
	if err != nil {
		return "err:" + err.Error()
	}
	if len(b) == 0 {
		return "empty"
	}
	it, derr := vocab.GobDecode(b)
	if derr != nil {
		return fmt.Sprintf("len=%d undecodable", len(b))
	}
	return fmt.Sprintf("%x", H64(vmodel.Canon(it, vmodel.Exact).String()))
}

func roOps() []roOp {
	ops := []roOp{
		{Name: "MarshalJSON(pkg)", Run: func(x vocab.Item) string { return digestBytes(vocab.MarshalJSON(x)) }},
		{Name: "x.MarshalJSON()", Run: func(x vocab.Item) string {
			if m, ok := x.(json.Marshaler); ok {
				return digestBytes(m.MarshalJSON())
			}
			return "n/a"
		}},
		{Name: "GobEncode(pkg)", Run: func(x vocab.Item) string { return digestGob(vocab.GobEncode(x)) }},
		{Name: "x.GobEncode()", Run: func(x vocab.Item) string { return digestGob(callMarshal(x, "GobEncode")) }},
		{Name: "x.MarshalBinary()", Run: func(x vocab.Item) string { return digestGob(callMarshal(x, "MarshalBinary")) }},
		{Name: "ItemsEqual(x,x)", Run: func(x vocab.Item) string { return fmt.Sprint(vocab.ItemsEqual(x, x)) }},
		{Name: "ItemsEqual(x,variant)", Run2: func(x, y vocab.Item) string { return fmt.Sprint(vocab.ItemsEqual(x, y), vocab.ItemsEqual(y, x)) }},
		{Name: "ItemsEqual(x,reordered)", Which: "reordered", Run2: func(x, y vocab.Item) string { return fmt.Sprint(vocab.ItemsEqual(x, y), vocab.ItemsEqual(y, x)) }},
		{Name: "ItemsEqual(x,edited)", Which: "edited", Run2: func(x, y vocab.Item) string { return fmt.Sprint(vocab.ItemsEqual(x, y), vocab.ItemsEqual(y, x)) }},
		{Name: "x.Equals(reordered)", Which: "reordered", Run2: func(x, y vocab.Item) string {
			out := ""
			_ = vocab.OnObject(x, func(o *vocab.Object) error {
				return vocab.OnObject(y, func(oy *vocab.Object) error {
					if o == nil || oy == nil {
						return nil
					}
					out = fmt.Sprint(o.Equals(oy), o.Name.Equals(oy.Name), oy.Summary.Equals(o.Summary), o.Content.Equals(oy.Content), o.Tag.Equals(oy.Tag), oy.To.Equals(o.To))
					return nil
				})
			})
			return out
		}},
		{Name: "Contains(variant)", Run2: func(x, y vocab.Item) string {
			out := ""
			_ = vocab.OnCollectionIntf(x, func(c vocab.CollectionInterface) error {
				_ = vocab.OnCollectionIntf(y, func(cy vocab.CollectionInterface) error {
					for _, m := range cy.Collection() {
						out += fmt.Sprint(c.Contains(m))
					}
					return nil
				})
				return nil
			})
			_ = vocab.OnObject(x, func(o *vocab.Object) error {
				return vocab.OnObject(y, func(oy *vocab.Object) error {
					if o == nil || oy == nil {
						return nil
					}
					for _, m := range oy.To {
						out += fmt.Sprint(o.To.Contains(m))
					}
					for _, m := range oy.Tag {
						out += fmt.Sprint(o.Tag.Contains(m))
					}
					return nil
				})
			})
			return out
		}},
		{Name: "fmt %s", Run: func(x vocab.Item) string { return fmt.Sprintf("%d", len(fmt.Sprintf("%s", x))) }},
		{Name: "fmt %v", Run: func(x vocab.Item) string { return fmt.Sprintf("%d", len(fmt.Sprintf("%v", x))) }},
		{Name: "fmt %+v", Run: func(x vocab.Item) string { return fmt.Sprintf("%d", len(fmt.Sprintf("%+v", x))) }},
		{Name: "IsNil/NotEmpty", Run: func(x vocab.Item) string { return fmt.Sprint(vocab.IsNil(x), vocab.NotEmpty(x)) }},
		{Name: "predicates", Run: func(x vocab.Item) string {
			return fmt.Sprint(vocab.IsObject(x), vocab.IsLink(x), vocab.IsIRI(x), vocab.IsIRIs(x), vocab.IsItemCollection(x), x.IsObject(), x.IsLink(), x.IsCollection(), x.GetType(), x.GetLink(), x.GetID())
		}},
		{Name: "DerefItem", Run: func(x vocab.Item) string { return fmt.Sprint(len(vocab.DerefItem(x))) }},
		{Name: "ItemOrderTimestamp", Run: func(x vocab.Item) string {
			return fmt.Sprint(vocab.ItemOrderTimestamp(x, x), vocab.ItemOrderTimestamp(x, vocab.IRI("https://example.com/i")))
		}},
		{Name: "FlattenToIRI", Run: func(x vocab.Item) string {
			r := vocab.FlattenToIRI(x)
			if r == nil {
				return "nil"
			}
			return string(r.GetLink())
		}},
		{Name: "Inbox.IRI/Of", Run: func(x vocab.Item) string {
			of := vocab.Likes.Of(x)
			s := string(vocab.Inbox.IRI(x))
			if of != nil {
				s += "|" + string(of.GetLink())
			}
			return s
		}},
		{Name: "collection accessors", Run: func(x vocab.Item) string {
			out := ""
			_ = vocab.OnCollectionIntf(x, func(c vocab.CollectionInterface) error {
				col := c.Collection()
				out = fmt.Sprint(c.Count(), len(col), c.Contains(vocab.IRI("https://example.com/not-there")), len(col.IRIs()), col.First() != nil, col.Normalize() != nil)
				return nil
			})
			return out
		}},
		{Name: "language accessors", Run: func(x vocab.Item) string {
			out := ""
			_ = vocab.OnObject(x, func(o *vocab.Object) error {
				if o == nil {
					return nil
				}
				out = fmt.Sprint(string(o.Name.Get("en")), o.Name.Count(), o.Name.First().Ref, o.Content.String(), o.Summary.Equals(o.Summary))
				b, _ := o.Name.MarshalJSON()
				t, _ := o.Name.MarshalText()
				out += fmt.Sprint(len(b), len(t))
				return nil
			})
			return out
		}},
	}
	// every On*/To* with a callback that only reads
	for _, h := range allViewHelpers {
		h := h
		ops = append(ops, roOp{Name: "On" + h.Name + "(read-only)", Run: func(x vocab.Item) string {
			d := "not-called"
			err := h.On(x, func(p any) {
				v := reflect.ValueOf(p)
				if v.Kind() == reflect.Pointer && !v.IsNil() {
					d = "called"
					// a read of the fields the view shares with every kind
					if f := v.Elem().FieldByName("ID"); f.IsValid() {
						d += ":" + f.String()
					}
				}
			})
			if err != nil {
				return "refused"
			}
			return d
		}})
		ops = append(ops, roOp{Name: "To" + h.Name, Run: func(x vocab.Item) string {
			p, err := h.To(x)
			if err != nil {
				return "refused"
			}
			return fmt.Sprint(p != nil && !reflect.ValueOf(p).IsNil())
		}})
	}
	return ops
}

var allRoOps = roOps()

func sharedValue(g *vmodel.Gen, idx int) vocab.Item {
	g.Spare = true
	g.Exact = true
	g.Queries = true
	k := vmodel.Kinds[idx%len(vmodel.Kinds)]
	g.PSet = []float64{0.2, 0.45, 0.8}[idx%3]
	p := g.Struct(k, 1+idx%2, true)
	if idx%5 == 0 {
		// members that have nothing to say (nil, typed nil) in the middle of the lists: an encoder that filters in place shows here
		v := reflect.ValueOf(p).Elem()
		for i := 0; i < v.NumField(); i++ {
			if v.Type().Field(i).IsExported() && v.Field(i).Type() == vmodel.IcT && v.Field(i).Len() >= 1 {
				old := v.Field(i).Interface().(vocab.ItemCollection)
				nl := make(vocab.ItemCollection, 0, len(old)+4)
				nl = append(nl, old[0], nil, (*vocab.Object)(nil))
				nl = append(nl, old[1:]...)
				v.Field(i).Set(reflect.ValueOf(nl))
			}
		}
	}
	switch idx % 9 {
	case 7:
		return reflect.ValueOf(p).Elem().Interface().(vocab.Item) // value form
	case 8:
		return g.Items(2, 3)
	}
	return p.(vocab.Item)
}

var unrelatedDocs = func() [][]byte {
	var out [][]byte
	for _, m := range mocks {
		out = append(out, m.Data)
	}
	// documents whose texts sit in language maps, of assorted lengths (a decoder that keeps pointing into a buffer it hands to
	// the next decode shows when a later, shorter or longer, document lands on the same bytes)
	for i := 0; i < 12; i++ {
		pad := strings.Repeat("lorem ipsum ", i*3)
		out = append(out, []byte(fmt.Sprintf(`{"id":"https://example.com/doc/%d","type":"Note","nameMap":{"en":"name %d %s","fr":"nom %d"},"contentMap":{"en":"<p>content %d %s</p>","de":"Inhalt %d"},"summary":"summary %d","tag":[{"type":"Mention","href":"https://example.com/u/%d","nameMap":{"en":"@user%d","ro":"@utilizator%d"}}]}`,
			i, i, pad, i, i, pad, i, i, i, i, i)))
	}
	return out
}()

// unrelatedDigests: what each unrelated document decodes to when nothing else runs (computed once, before any goroutine starts)
var unrelatedDigests = func() []uint64 {
	out := make([]uint64, len(unrelatedDocs))
	for i, d := range unrelatedDocs {
		out[i] = decodedDigest(d)
	}
	return out
}()

func decodedDigest(doc []byte) (h uint64) {
	defer func() {
		if recover() != nil {
			h = 1
		}
	}()
	v, err := vocab.UnmarshalJSON(doc)
	if err != nil || v == nil {
		return 2
	}
	return H64(vmodel.Canon(v, vmodel.Exact).String())
}

func init() {
	nOps := len(allRoOps)
	Register(&Prop{
		ID: "C12",
		Rule: fmt.Sprintf("monitor A (plain build): a deep snapshot (contents plus the whole backing array of every reachable slice up to cap, with sentinel members planted in the spare capacity) is taken before and after each of %d read-only operations (both encoders in package and method form, MarshalBinary, ItemsEqual, formatting, IsNil/NotEmpty/predicates, DerefItem, ordering, collection and language accessors, every On*/To* with a reading callback) on generated values of all 14 kinds, value forms and lists; any difference is a violation attributed to the operation. "+
			"Monitor B (race build): per shared value G in {4,16} goroutines x 60/20 (quick) or 200/60 (thorough) iterations apply a random interleaving of the same operations while G more goroutines decode unrelated documents (JSON and gob); every concurrent result must equal the sequential result recorded beforehand, every concurrently decoded document must equal (at once, and again a few decodes later) what it decodes to alone, and the race detector must report nothing; the number of distinct operation pairs that actually overlapped is measured with an in-flight matrix kept outside the shared value; distinct = (value fingerprint, operation); non-trivial = values with at least one slice-valued property set", nOps),
		Builds:   func(tier string) []string { return []string{"plain", "race"} },
		OneShard: []string{},
		Layers: func(tier string) []Layer {
			return []Layer{
				{Name: "snapshots", N: tierN(tier, 1500, 20000), Run: func(c *Ctx, idx int) {
					if c.Build == "race" {
						return
					}
					g := caseGen(c, false, idx)
					x := sharedValue(g, idx)
					fp := vmodel.Fingerprint(vmodel.Canon(x, vmodel.Exact))
					variant := makeVariants(x)
					before := vmodel.TakeSnapshot(x)
					beforeH := vmodel.SnapshotHash(x)
					var variantH []uint64
					for _, y := range variant.all() {
						variantH = append(variantH, vmodel.SnapshotHash(y))
					}
					for _, op := range allRoOps {
						c.Pending(op.Name + " :: " + kindOf(x))
						if c.Guard(op.Name, func() { _ = op.apply(x, variant) }) {
							continue
						}
						c.Eval(1)
						c.Count("snapshot-ops", 1)
						c.Distinct(fp+"|"+op.Name, len(before.Entries) > 60)
						if afterH := vmodel.SnapshotHash(x); afterH != beforeH {
							after := vmodel.TakeSnapshot(x)
							d := before.FirstDiff(after)
							c.Fail(fmt.Sprintf("ro|modified|%s|%s", op.Name, vmodel.DiffField(d)), fmt.Sprintf("%s modified its argument (a %s): %s", op.Name, kindOf(x), d),
								map[string]any{"operation": op.Name, "kind": kindOf(x), "difference": d})
							before, beforeH = after, afterH
						}
						if op.Run2 != nil {
							// the other argument of a comparison is an argument too
							for vi, y := range variant.all() {
								if h := vmodel.SnapshotHash(y); h != variantH[vi] {
									c.Fail(fmt.Sprintf("ro|modified-other-argument|%s", op.Name), fmt.Sprintf("%s modified the value its argument (a %s) was compared with", op.Name, kindOf(x)),
										map[string]any{"operation": op.Name, "kind": kindOf(x)})
									variantH[vi] = h
								}
							}
						}
					}
					if c.WantSample() {
						c.Sample(map[string]any{"value": clipS(vmodel.Canon(x, vmodel.Exact).String(), 300), "operations": nOps, "snapshot_entries": len(before.Entries)})
					}
				}},
				{Name: "concurrent", N: tierN(tier, 96, 480), Run: func(c *Ctx, idx int) {
					if c.Build != "race" {
						return
					}
					g := caseGen(c, false, idx)
					x := sharedValue(g, idx)
					var ops []roOp
					for _, op := range allRoOps {
						ops = append(ops, op)
					}
					variant := makeVariants(x)
					// sequential results first
					seq := make([]string, len(ops))
					for i, op := range ops {
						op := op
						if c.Guard(op.Name, func() { seq[i] = op.apply(x, variant) }) {
							return
						}
					}
					before := vmodel.SnapshotHash(x)
					G := 4
					if idx%4 == 0 {
						G = 16
					}
					iters := tierN(c.Tier, 60, 200)
					if G == 16 {
						iters = tierN(c.Tier, 20, 60)
					}
					inflight := make([]int32, len(ops))
					overlapped := make([]int32, len(ops)*len(ops))
					var mismatches, decodeMismatches, decodesChecked int32
					var firstMismatch, firstDecodeMismatch atomic.Value
					var wg sync.WaitGroup
					seed := c.R.Int63()
					for w := 0; w < G; w++ {
						wg.Add(2)
						go func(w int) {
							defer wg.Done()
							r := newRand(seed + int64(w))
							for it := 0; it < iters; it++ {
								i := r.Intn(len(ops))
								atomic.AddInt32(&inflight[i], 1)
								for j := range inflight {
									if atomic.LoadInt32(&inflight[j]) > 0 && (j != i || atomic.LoadInt32(&inflight[j]) > 1) {
										atomic.StoreInt32(&overlapped[i*len(ops)+j], 1)
									}
								}
								var got string
								func() {
									defer func() {
										if rec := recover(); rec != nil {
											got = fmt.Sprintf("panic: %v", rec)
										}
									}()
									got = ops[i].apply(x, variant)
								}()
								atomic.AddInt32(&inflight[i], -1)
								if got != seq[i] {
									if atomic.AddInt32(&mismatches, 1) == 1 {
										firstMismatch.Store(fmt.Sprintf("%s: sequential %q, concurrent %q", ops[i].Name, seq[i], got))
									}
								}
							}
						}(w)
						go func(w int) {
							defer wg.Done()
							r := newRand(seed + 1000 + int64(w))
							// "decode independent inputs concurrently ... each result equals the sequential one": every result is digested
							// at once and again a few decodes later (results are kept in a small ring), against the digest recorded beforehand
							type kept struct {
								v   vocab.Item
								doc int
							}
							var ring [6]kept
							check := func(k kept, when string) {
								if k.v == nil {
									return
								}
								if got := H64(vmodel.Canon(k.v, vmodel.Exact).String()); got != unrelatedDigests[k.doc] {
									if atomic.AddInt32(&decodeMismatches, 1) == 1 {
										firstDecodeMismatch.Store(fmt.Sprintf("document %d (%s)", k.doc, when))
									}
								}
							}
							for it := 0; it < iters/2; it++ {
								di := r.Intn(len(unrelatedDocs))
								v, err := vocab.UnmarshalJSON(unrelatedDocs[di])
								atomic.AddInt32(&decodesChecked, 1)
								if err != nil || v == nil {
									if unrelatedDigests[di] != 2 {
										atomic.AddInt32(&decodeMismatches, 1)
									}
									continue
								}
								check(kept{v, di}, "as returned")
								check(ring[it%len(ring)], "a few decodes later")
								ring[it%len(ring)] = kept{v, di}
								if r.Intn(3) == 0 {
									if b, err := vocab.GobEncode(v); err == nil && len(b) > 0 {
										_, _ = vocab.GobDecode(b)
									}
								}
							}
						}(w)
					}
					wg.Wait()
					c.Eval(G * iters)
					c.Count("concurrent-ops", int64(G*iters))
					c.Count("shared-values", 1)
					c.Count("goroutines", int64(2*G))
					pairs := int64(0)
					for _, o := range overlapped {
						pairs += int64(o)
					}
					c.Count("overlapping-op-pairs-observed", pairs)
					c.Distinct("concurrent|"+vmodel.Fingerprint(vmodel.Canon(x, vmodel.Exact)), true)
					if mismatches > 0 {
						c.Fail("ro|concurrent-differs-from-sequential", fmt.Sprintf("%d concurrent results differ from the sequential ones on a shared %s; first: %v", mismatches, kindOf(x), firstMismatch.Load()),
							map[string]any{"kind": kindOf(x), "goroutines": G})
					}
					c.Count("concurrent-decodes-checked", int64(decodesChecked))
					if decodeMismatches > 0 {
						c.Fail("ro|concurrent-decode-differs-from-sequential", fmt.Sprintf("%d results of decoding unrelated documents concurrently differ from what the same documents decode to alone; first: %v", decodeMismatches, firstDecodeMismatch.Load()),
							map[string]any{"goroutines": G})
					}
					if after := vmodel.SnapshotHash(x); after != before {
						c.Fail("ro|modified-under-concurrency", fmt.Sprintf("the shared %s changed while %d goroutines applied read-only operations", kindOf(x), G), map[string]any{"kind": kindOf(x)})
					}
					if c.WantSample() {
						c.Sample(map[string]any{"shared_value": kindOf(x), "goroutines": 2 * G, "iterations": iters, "overlapping_pairs": pairs})
					}
				}},
			}
		},
		Floors: func(tier string) map[string]int64 {
			return map[string]int64{"snapshot-ops": 30000, "concurrent-ops": int64(tierN(tier, 20000, 250000)), "overlapping-op-pairs-observed": 500, "concurrent-decodes-checked": int64(tierN(tier, 5000, 60000))}
		},
		Assumptions: []string{
			"gob bytes depend on map iteration order, so gob results are compared through the canonical tree of their decoding",
			"operations through the CollectionPage -> OrderedCollectionPage view are left out here (C08's known finding reads past the value by construction)",
		},
	})
}

var _ = bytes.Equal
