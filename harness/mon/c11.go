package mon

import (
	"bytes"
	"fmt"
	"reflect"
	"strings"

	vocab "github.com/go-ap/activitypub"

	"verif/harness/vmodel"
)

// C11: Clean() leaves no private recipients in what gets serialised.

var walkedFields = []string{"Audience", "Attachment", "Icon", "Image", "Context", "Generator", "AttributedTo", "Preview", "Tag"}
var activityWalked = []string{"Object", "Actor", "Target"}

type cleaner interface{ Clean() }

var cleanKinds = func() []vmodel.StructKind {
	var out []vmodel.StructKind
	for _, k := range vmodel.Kinds {
		if _, ok := k.New().(cleaner); ok {
			out = append(out, k)
		}
	}
	return out
}()

// modelWalk calls fn on every struct the statement's walk reaches (the value itself, and objects embedded
// by pointer in the walked properties, recursively and through lists; object/actor/target under an Activity).
func modelWalk(p reflect.Value, fn func(p reflect.Value)) {
	if p.Kind() != reflect.Pointer || p.IsNil() || p.Elem().Kind() != reflect.Struct {
		return
	}
	if _, ok := p.Interface().(cleaner); !ok {
		return
	}
	fn(p)
	v := p.Elem()
	fields := walkedFields
	if v.Type().Name() == "Activity" {
		fields = append(append([]string{}, walkedFields...), activityWalked...)
	}
	for _, f := range fields {
		fv := v.FieldByName(f)
		if !fv.IsValid() {
			continue
		}
		modelWalkItem(fv, fn)
	}
}

func modelWalkItem(fv reflect.Value, fn func(p reflect.Value)) {
	for fv.Kind() == reflect.Interface {
		if fv.IsNil() {
			return
		}
		fv = fv.Elem()
	}
	switch {
	case fv.Type() == vmodel.IcT:
		for i := 0; i < fv.Len(); i++ {
			modelWalkItem(fv.Index(i), fn)
		}
	case fv.Kind() == reflect.Pointer:
		modelWalk(fv, fn)
	}
}

// allStructs visits every struct with recipient lists reachable through any field (pointer or value form).
func allStructs(v reflect.Value, fn func(s reflect.Value), depth int) {
	if depth > 4000 {
		return
	}
	switch v.Kind() {
	case reflect.Interface, reflect.Pointer:
		if !v.IsNil() {
			allStructs(v.Elem(), fn, depth+1)
		}
	case reflect.Slice:
		if v.Type() == vmodel.IcT {
			for i := 0; i < v.Len(); i++ {
				allStructs(v.Index(i), fn, depth+1)
			}
		}
	case reflect.Struct:
		if v.Type() == vmodel.TimeT {
			return
		}
		if v.FieldByName("Bto").IsValid() && v.CanSet() {
			fn(v)
		}
		for i := 0; i < v.NumField(); i++ {
			if v.Type().Field(i).IsExported() {
				allStructs(v.Field(i), fn, depth+1)
			}
		}
	}
}

const onWalkMark, offWalkMark = "https://private.example/on-walk/", "https://private.example/off-walk/"

// plant sets bto/bcc on every reachable struct that can be written to, marking whether the statement's walk reaches it.
func plant(x any, every bool, r interface{ Intn(int) int }) (on, off int) {
	top := reflect.ValueOf(x)
	onWalk := map[uintptr]bool{}
	modelWalk(top, func(p reflect.Value) { onWalk[p.Pointer()] = true })
	n := 0
	allStructs(top, func(s reflect.Value) {
		if !every && r.Intn(3) == 0 {
			return
		}
		n++
		mark := offWalkMark
		if s.CanAddr() && onWalk[s.Addr().Pointer()] {
			mark = onWalkMark
			on++
		} else {
			off++
		}
		s.FieldByName("Bto").Set(reflect.ValueOf(vocab.ItemCollection{vocab.IRI(fmt.Sprintf("%s%d/bto", mark, n))}))
		s.FieldByName("BCC").Set(reflect.ValueOf(vocab.ItemCollection{vocab.IRI(fmt.Sprintf("%s%d/bcc", mark, n)), vocab.IRI(fmt.Sprintf("%s%d/bcc2", mark, n))}))
	}, 0)
	return
}

func runClean(c *Ctx, x any, label string, every bool) {
	on, off := plant(x, every, c.R)
	want := vmodel.DeepCopy(x)
	modelWalk(reflect.ValueOf(want), func(p reflect.Value) {
		p.Elem().FieldByName("Bto").Set(reflect.Zero(vmodel.IcT))
		p.Elem().FieldByName("BCC").Set(reflect.Zero(vmodel.IcT))
	})
	wantN := vmodel.Canon(want, vmodel.Exact)
	c.Distinct("clean|"+label+"|"+vmodel.Fingerprint(wantN), on > 1 || off > 0)
	c.Count("plants-on-walk", int64(on))
	c.Count("plants-off-walk", int64(off))
	if c.WantSample() {
		c.Sample(map[string]any{"case": label, "plants_on_walk": on, "plants_off_walk": off, "value": clipS(vmodel.Canon(x, vmodel.Exact).String(), 500)})
	}
	kind := kindOf(x)
	c.Pending("Clean " + label)
	if c.Guard(kind+".Clean", func() { x.(cleaner).Clean() }) {
		return
	}
	c.Eval(1)
	c.Count("cleans", 1)
	gotN := vmodel.Canon(x, vmodel.Exact)
	for _, d := range vmodel.Diff(wantN, gotN) {
		effect := "other-property-changed"
		if strings.HasSuffix(d.Leaf, ".bto") || strings.HasSuffix(d.Leaf, ".bcc") {
			if d.Kind == "extra" {
				effect = "private-recipients-left-on-walk"
			} else {
				effect = "private-recipients-removed-off-walk"
			}
		}
		via := walkVia(d.Path)
		c.Fail(fmt.Sprintf("clean|%s|%s|%s", kind, effect, via), fmt.Sprintf("after Clean() of %s: %s %s (%s)", label, d.Path, d.Kind, effect),
			map[string]any{"case": label, "path": d.Path, "want": d.Want, "got": d.Got})
	}
	// what gets serialised: no on-walk private recipient may appear in either codec
	if it, ok := x.(vocab.Item); ok {
		var jb, gb []byte
		var err error
		if !c.Guard("MarshalJSON", func() { jb, err = vocab.MarshalJSON(it) }) && err == nil {
			c.Eval(1)
			c.Count("serialisations", 1)
			if i := bytes.Index(jb, []byte("/on-walk/")); i >= 0 {
				c.Fail("clean|"+kind+"|json-leak", fmt.Sprintf("the JSON written after Clean() of %s still holds a private recipient of a walked object", label),
					map[string]any{"case": label, "around": clipS(string(jb[maxInt(0, i-120):minInt(len(jb), i+60)]), 300)})
			}
		}
		if !c.Guard("GobEncode", func() { gb, err = vocab.GobEncode(it) }) && err == nil {
			c.Eval(1)
			if bytes.Contains(gb, []byte("/on-walk/")) {
				c.Fail("clean|"+kind+"|gob-leak", fmt.Sprintf("the gob written after Clean() of %s still holds a private recipient of a walked object", label), map[string]any{"case": label})
			}
		}
	}
}

// runCleanList: the same oracle for a top-level item list.
func runCleanList(c *Ctx, l vocab.ItemCollection) {
	// plant through a holder so that the reference walk starts at the list members
	on, off := 0, 0
	onWalk := map[uintptr]bool{}
	for i := range l {
		modelWalkItem(reflect.ValueOf(&l).Elem().Index(i), func(p reflect.Value) { onWalk[p.Pointer()] = true })
	}
	n := 0
	allStructs(reflect.ValueOf(&l).Elem(), func(s reflect.Value) {
		n++
		mark := offWalkMark
		if s.CanAddr() && onWalk[s.Addr().Pointer()] {
			mark = onWalkMark
			on++
		} else {
			off++
		}
		s.FieldByName("Bto").Set(reflect.ValueOf(vocab.ItemCollection{vocab.IRI(fmt.Sprintf("%s%d/bto", mark, n))}))
		s.FieldByName("BCC").Set(reflect.ValueOf(vocab.ItemCollection{vocab.IRI(fmt.Sprintf("%s%d/bcc", mark, n))}))
	}, 0)
	want := vmodel.DeepCopy(l).(vocab.ItemCollection)
	for i := range want {
		modelWalkItem(reflect.ValueOf(&want).Elem().Index(i), func(p reflect.Value) {
			p.Elem().FieldByName("Bto").Set(reflect.Zero(vmodel.IcT))
			p.Elem().FieldByName("BCC").Set(reflect.Zero(vmodel.IcT))
		})
	}
	wantN := vmodel.Canon(want, vmodel.Exact)
	c.Distinct("cleanlist|"+vmodel.Fingerprint(wantN), true)
	c.Count("plants-on-walk", int64(on))
	c.Count("plants-off-walk", int64(off))
	c.Pending("ItemCollection.Clean")
	if c.Guard("ItemCollection.Clean", func() { l.Clean() }) {
		return
	}
	c.Eval(1)
	c.Count("cleans", 1)
	c.Count("list-cleans", 1)
	for _, d := range vmodel.Diff(wantN, vmodel.Canon(l, vmodel.Exact)) {
		effect := "other-property-changed"
		if strings.HasSuffix(d.Leaf, ".bto") || strings.HasSuffix(d.Leaf, ".bcc") {
			effect = "private-recipients-removed-off-walk"
			if d.Kind == "extra" {
				effect = "private-recipients-left-on-walk"
			}
		}
		c.Fail("clean|ItemCollection|"+effect, fmt.Sprintf("after Clean() of a top-level item list: %s %s", d.Path, d.Kind), map[string]any{"path": d.Path, "want": d.Want, "got": d.Got})
	}
	var jb []byte
	var err error
	if !c.Guard("MarshalJSON", func() { jb, err = vocab.MarshalJSON(l) }) && err == nil {
		c.Count("serialisations", 1)
		if bytes.Contains(jb, []byte("/on-walk/")) {
			c.Fail("clean|ItemCollection|json-leak", "the JSON written after Clean() of a top-level item list still holds a private recipient of a member embedded by pointer", map[string]any{})
		}
	}
}

// walkVia names the first property of the path (which hop the difference lies under).
func walkVia(path string) string {
	first := path
	if i := strings.IndexAny(path, "/["); i >= 0 {
		first = path[:i]
	}
	if i := strings.IndexByte(first, '.'); i >= 0 {
		first = first[i+1:]
	}
	return first
}

func maxInt(a, b int) int {
	if a > b {
		return a
	}
	return b
}
func minInt(a, b int) int {
	if a < b {
		return a
	}
	return b
}

type cleanChain struct {
	Kind  vmodel.StructKind
	First string // field of the top value
	Form  string // single | list | value
	Depth int
	Inner string // kind of the embedded objects
}

func cleanChains() []cleanChain {
	var out []cleanChain
	inner := []string{"Object", "Actor", "Activity", "Question", "OrderedCollection", "Place"}
	for _, k := range cleanKinds {
		for _, f := range k.Fields() {
			if f.Name == "Bto" || f.Name == "BCC" || f.Name == "To" || f.Name == "CC" {
				continue
			}
			if f.Type.Kind() != reflect.Interface && f.Type != vmodel.IcT {
				continue
			}
			for d := 1; d <= 3; d++ {
				for _, form := range []string{"single", "list", "value"} {
					if f.Type == vmodel.IcT && form == "single" {
						continue
					}
					out = append(out, cleanChain{k, f.Name, form, d, inner[(len(out))%len(inner)]})
				}
			}
		}
	}
	return out
}

var allCleanChains = cleanChains()

func buildChain(cc cleanChain, idx int) any {
	g := vmodel.NewGen(newRand(int64(idx) + 99))
	mkInner := func(kind string) reflect.Value {
		k := vmodel.Kinds[vmodel.KindIndex(kind)]
		p := reflect.ValueOf(k.New())
		p.Elem().FieldByName("ID").Set(reflect.ValueOf(g.IRI()))
		p.Elem().FieldByName("Type").Set(reflect.ValueOf(vocab.ActivityVocabularyType(k.SpecificType())))
		p.Elem().FieldByName("Name").Set(reflect.ValueOf(vocab.NaturalLanguageValues{{Ref: vocab.NilLangRef, Value: vocab.Content("embedded")}}))
		p.Elem().FieldByName("To").Set(reflect.ValueOf(vocab.ItemCollection{g.IRI()}))
		return p
	}
	top := reflect.ValueOf(cc.Kind.New())
	top.Elem().FieldByName("ID").Set(reflect.ValueOf(g.IRI()))
	top.Elem().FieldByName("Type").Set(reflect.ValueOf(vocab.ActivityVocabularyType(cc.Kind.SpecificType())))
	top.Elem().FieldByName("CC").Set(reflect.ValueOf(vocab.ItemCollection{g.IRI()}))
	cur := top
	field := cc.First
	hops := append([]string{}, walkedFields...)
	for d := 0; d < cc.Depth; d++ {
		child := mkInner(cc.Inner)
		fv := cur.Elem().FieldByName(field)
		var val reflect.Value
		switch {
		case cc.Form == "value" && d == 0:
			val = child.Elem() // embedded by value: Clean() cannot reach it
		default:
			val = child
		}
		if fv.Type() == vmodel.IcT || cc.Form == "list" {
			l := vocab.ItemCollection{g.IRI(), val.Interface().(vocab.Item), &vocab.Link{Type: vocab.MentionType, Href: g.IRI()}}
			fv.Set(reflect.ValueOf(l))
		} else {
			fv.Set(val)
		}
		// also hang something off the walk from every level
		if off := cur.Elem().FieldByName("InReplyTo"); off.IsValid() && field != "InReplyTo" {
			off.Set(mkInner("Object"))
		}
		cur = child
		field = hops[(idx+d)%len(hops)]
	}
	return top.Interface()
}

func init() {
	Register(&Prop{
		ID: "C11",
		Rule: "model: delete bto/bcc on the value and on every object embedded by pointer in audience, attachment, icon, image, context, generator, attributedTo, preview, tag (and object, actor, target under an Activity), recursively and through lists; everything else unchanged. Every reachable struct gets marked bto/bcc plants (on-walk / off-walk sentinels); after Clean() the canonical tree must equal the model's, and neither the JSON nor the gob bytes may contain an on-walk sentinel. " +
			"Exhaustive layer: every type with Clean() x every item-valued property (walked and not walked) x depth 1-3 x {single pointer, list member, value form}; chains 8, 20, 40 and 70 levels deep through single items and through lists; random layer: seeded nested values (depth 2 quick / 3 thorough, p=0.35); distinct = value fingerprint; non-trivial = plants below the top level",
		Layers: func(tier string) []Layer {
			return []Layer{
				{Name: "chains", N: len(allCleanChains), Exhaustive: true, Run: func(c *Ctx, idx int) {
					cc := allCleanChains[idx]
					x := buildChain(cc, idx)
					label := fmt.Sprintf("%s.%s %s depth %d via %s", cc.Kind.Name, cc.First, cc.Form, cc.Depth, cc.Inner)
					c.Count("first-hop:"+cc.First, 1)
					runClean(c, x, label, true)
				}},
				{Name: "deep-chains", N: len(cleanKinds) * 4 * 2, Exhaustive: true, Run: func(c *Ctx, idx int) {
					// the walk has no depth bound: private recipients 8 to 70 levels down the walked properties must go too
					k := cleanKinds[idx%len(cleanKinds)]
					depth := []int{8, 20, 40, 70}[(idx/len(cleanKinds))%4]
					form := []string{"single", "list"}[idx/(len(cleanKinds)*4)]
					first := walkedFields[idx%len(walkedFields)]
					if f, ok := k.FieldByTerm(strings.ToLower(first[:1]) + first[1:]); !ok || (f.Type == vmodel.IcT && form == "single") {
						first, form = "Tag", "list"
					}
					cc := cleanChain{k, first, form, depth, []string{"Object", "Actor", "Activity", "Place"}[idx%4]}
					x := buildChain(cc, idx)
					c.Count("deep-chains", 1)
					runClean(c, x, fmt.Sprintf("%s.%s %s depth %d via %s", k.Name, first, form, depth, cc.Inner), true)
				}},
				{Name: "same-id-twins", N: 3 * 5 * 3, Exhaustive: true, Run: func(c *Ctx, idx int) {
					// separately embedded copies of one thing (same id, own private recipients) in two or three walked positions:
					// a walk that skips what it "has already seen" by id leaves the second copy uncleaned
					kind := []string{"Activity", "IntransitiveActivity", "Question"}[idx%3]
					share := []string{"actor=object", "target=object", "target=actor", "all", "tag-members"}[(idx/3)%5]
					shape := []string{"Actor", "Object", "Place"}[idx/15]
					mk := func(n int) vocab.Item {
						id := vocab.IRI("https://example.com/twins/one")
						switch shape {
						case "Actor":
							return &vocab.Actor{ID: id, Type: vocab.PersonType, Name: vocab.NaturalLanguageValues{{Ref: vocab.NilLangRef, Value: vocab.Content(fmt.Sprintf("copy %d", n))}}}
						case "Place":
							return &vocab.Place{ID: id, Type: vocab.PlaceType, Latitude: float64(n)}
						}
						return &vocab.Object{ID: id, Type: vocab.NoteType, Summary: vocab.NaturalLanguageValues{{Ref: vocab.NilLangRef, Value: vocab.Content(fmt.Sprintf("copy %d", n))}}}
					}
					other := func(n int) vocab.Item {
						return &vocab.Object{ID: vocab.IRI(fmt.Sprintf("https://example.com/twins/other/%d", n)), Type: vocab.NoteType}
					}
					p := vmodel.Kinds[vmodel.KindIndex(kind)].New()
					v := reflect.ValueOf(p).Elem()
					v.FieldByName("ID").Set(reflect.ValueOf(vocab.IRI("https://example.com/twins/holder")))
					v.FieldByName("Type").Set(reflect.ValueOf(vocab.ActivityVocabularyType(vmodel.Kinds[vmodel.KindIndex(kind)].SpecificType())))
					set := func(f string, it vocab.Item) {
						if fv := v.FieldByName(f); fv.IsValid() {
							fv.Set(reflect.ValueOf(it))
						}
					}
					switch share {
					case "actor=object":
						set("Actor", mk(1))
						set("Object", mk(2))
						set("Target", other(3))
					case "target=object":
						set("Actor", other(1))
						set("Object", mk(2))
						set("Target", mk(3))
					case "target=actor":
						set("Actor", mk(1))
						set("Object", other(2))
						set("Target", mk(3))
					case "all":
						set("Actor", mk(1))
						set("Object", mk(2))
						set("Target", mk(3))
						set("Attachment", mk(4))
					default:
						v.FieldByName("Tag").Set(reflect.ValueOf(vocab.ItemCollection{mk(1), other(2), mk(3)}))
						set("Actor", mk(4))
					}
					c.Count("twin-cases", 1)
					runClean(c, p, fmt.Sprintf("%s with same-id copies (%s) in %s", kind, shape, share), true)
				}},
				{Name: "top-level-list", N: tierN(tier, 2000, 20000), Run: func(c *Ctx, idx int) {
					// ItemCollection offers Clean() too: every member embedded by pointer is cleaned, value-form members cannot be
					g := caseGen(c, false, idx)
					g.PSet = 0.3
					g.Exact = true
					var l vocab.ItemCollection
					for m := 1 + g.R.Intn(3); m > 0; m-- {
						k := cleanKinds[g.R.Intn(len(cleanKinds))]
						p := g.Struct(k, 1, true)
						if g.R.Intn(5) == 0 {
							l = append(l, reflect.ValueOf(p).Elem().Interface().(vocab.Item))
						} else {
							l = append(l, p.(vocab.Item))
						}
					}
					l = append(l, g.IRI())
					runCleanList(c, l)
				}},
				{Name: "random", N: tierN(tier, 6000, 100000), Run: func(c *Ctx, idx int) {
					g := caseGen(c, false, idx)
					g.PSet = 0.35
					g.Exact = true
					k := cleanKinds[g.R.Intn(len(cleanKinds))]
					x := g.Struct(k, tierN(c.Tier, 2, 3), true)
					runClean(c, x, "random "+k.Name, false)
				}},
			}
		},
		Floors: func(tier string) map[string]int64 {
			return map[string]int64{"cleans": 8000, "plants-on-walk": 20000, "plants-off-walk": 20000, "serialisations": 8000}
		},
		Assumptions: []string{
			"'for an activity' is read as the Activity struct: IntransitiveActivity and Question walk the object core only (validated against the pinned tree at design time)",
			"objects embedded by value, links and IRIs are not reached by Clean(): their private recipients must still be there",
		},
	})
}
