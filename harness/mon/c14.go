package mon

import (
	"fmt"
	"net/url"
	"path"
	"sort"
	"strings"

	vocab "github.com/go-ap/activitypub"
)

// C14: IRI equivalence is an equivalence relation with the documented insensitivities.

var (
	gridSchemes = []string{"https", "http", "HTTPS"}
	gridHosts   = []string{"example.com", "EXAMPLE.com", "example.com:8443", "other.example", "[2001:db8::1]", "[2001:db8::2]:8443", "[2001:DB8::1]"}
	gridPaths   = []string{"", "/", "/a", "/a/", "/A", "/a/b", "/a/./b", "/a/c/../b", "/a//b"}
	gridQueries = []string{"", "?", "?x=1", "?x=1&y=2", "?y=2&x=1", "?x=1&x=1", "?x=1&x=2", "?x=2&x=1", "?x=2", "?next=/", "?next=", "?x=1&p=/a/", "?x=1&p=/a", "?next=https://other.example/x"}
	gridFrags   = []string{"", "#frag", "#other"}
)

type gridIRI struct {
	S   string
	Key [2]string // key with scheme, key without scheme
}

// refKey is the reference normaliser: (lower(scheme) if cs, lower(host incl. port), lower(clean(path)) with ""=="/", sorted multiset of query pairs).
func refKey(s string, cs bool) (string, bool) {
	u, err := url.Parse(s)
	if err != nil || u.Scheme == "" || u.Host == "" {
		return "", false
	}
	p := u.Path
	if p == "" {
		p = "/"
	}
	p = strings.ToLower(path.Clean(p))
	var pairs []string
	for k, vs := range u.Query() {
		for _, v := range vs {
			pairs = append(pairs, k+"="+v)
		}
	}
	sort.Strings(pairs)
	key := strings.ToLower(u.Host) + "|" + p + "|" + strings.Join(pairs, "&")
	if cs {
		key = strings.ToLower(u.Scheme) + "|" + key
	}
	return key, true
}

var grid = func() []gridIRI {
	var out []gridIRI
	for _, sc := range gridSchemes {
		for _, h := range gridHosts {
			for _, p := range gridPaths {
				for _, q := range gridQueries {
					for _, f := range gridFrags {
						s := sc + "://" + h + p + q + f
						k1, ok1 := refKey(s, true)
						k0, ok0 := refKey(s, false)
						if !ok1 || !ok0 {
							panic("grid IRI does not parse: " + s)
						}
						out = append(out, gridIRI{s, [2]string{k1, k0}})
					}
				}
			}
		}
	}
	return out
}()

// gridNeighbours: for every grid IRI the grid IRIs that share its host and path under the reference normaliser (the ones that
// are equivalent to it and the ones that differ from it in the query only)
var gridNeighbours = func() [][]int {
	groups := map[string][]int{}
	hp := func(g gridIRI) string {
		k := g.Key[1]
		return k[:strings.LastIndexByte(k, '|')]
	}
	for i, g := range grid {
		groups[hp(g)] = append(groups[hp(g)], i)
	}
	out := make([][]int, len(grid))
	for i, g := range grid {
		out[i] = groups[hp(g)]
	}
	return out
}()

func iriClass(s string) string {
	u, err := url.Parse(s)
	if err != nil {
		return "unparsable"
	}
	q := "noquery"
	switch {
	case u.RawQuery == "" && strings.Contains(s, "?"):
		q = "emptyquery"
	case strings.Count(u.RawQuery, "x=") > 1:
		q = "repeated-key"
	case strings.Contains(u.RawQuery, "&"):
		q = "multi-key"
	case u.RawQuery != "":
		q = "single-key"
	}
	p := "path"
	switch u.Path {
	case "":
		p = "nopath"
	case "/":
		p = "root"
	}
	if strings.Contains(u.Path, "/.") || strings.Contains(u.Path, "//") {
		p = "unclean-path"
	}
	return p + "+" + q
}

// a second, small grid around percent-escapes of reserved characters in the path: the decoded path decides, so ids that differ
// only after an escaped '#', '?', '/', '%' or space are different, and an escape never starts a fragment or a query
var escGrid = func() []gridIRI {
	var out []gridIRI
	for _, h := range []string{"https://example.com", "http://EXAMPLE.com:8443"} {
		for _, p := range []string{"/tags/%23golang", "/tags/%23rust", "/tags/%23", "/q/%3Fa=1", "/q/%3Fa=2", "/files/a%2Fb", "/files/a%2Fc", "/rate/100%25", "/rate/100%25x", "/x%20y", "/x%20z", "/tags/", "/tags", "/users/j%C3%BCrgen", "/users/j%C3%B6rgen"} {
			for _, q := range []string{"", "?x=1", "?x=%23a", "?x=%23b"} {
				for _, f := range []string{"", "#frag"} {
					s := h + p + q + f
					k1, ok1 := refKey(s, true)
					k0, ok0 := refKey(s, false)
					if !ok1 || !ok0 {
						panic("escape grid IRI does not parse: " + s)
					}
					out = append(out, gridIRI{s, [2]string{k1, k0}})
				}
			}
		}
	}
	return out
}()

// a third small grid: the well-known constants of the vocabulary and other presentations of the same addresses (a shortcut keyed
// on a constant must not answer differently from the general comparison)
var constGrid = func() []gridIRI {
	var out []gridIRI
	add := func(s string) {
		k1, ok1 := refKey(s, true)
		k0, ok0 := refKey(s, false)
		if !ok1 || !ok0 {
			panic("constant grid IRI does not parse: " + s)
		}
		out = append(out, gridIRI{s, [2]string{k1, k0}})
	}
	for _, c := range []string{string(vocab.PublicNS), string(vocab.ActivityBaseURI), string(vocab.SecurityContextURI)} {
		u := c
		frag := ""
		if i := strings.IndexByte(u, '#'); i >= 0 {
			u, frag = c[:i], c[i:]
		}
		rest := strings.TrimPrefix(u, "https://")
		host, pth := rest, ""
		if i := strings.IndexByte(rest, '/'); i >= 0 {
			host, pth = rest[:i], rest[i:]
		}
		for _, v := range []string{c, u, "http://" + rest + frag, "https://" + strings.ToUpper(host) + pth + frag, u + "/" + frag, "https://" + host + "/." + pth + frag,
			u + "#public", u + "#Followers", u + "?x=1" + frag, "https://" + host + pth + "x" + frag, "https://" + host + ":443" + pth + frag} {
			add(v)
		}
	}
	return out
}()

var nonURLStrings = []string{"", "-", "a", "not a url", "mailto:user@example.com", "acct:user@example.com", "/relative/path", "//host/path", "https://", "https:///nohost", "http://[::1", "%zz", "https://example.com/%zz",
	"example.com/a", "HTTPS://EXAMPLE.COM/A", "https://example.com/a#", "#", "?", "https://user:pw@example.com/a", "urn:uuid:1234", "https://example.com/a b", "\x00", "https://例え.jp/パス", "as:Public", "Public"}

var nearAlphabet = []string{"https://", "http://", "HTTP://", "example.com", "EXAMPLE.COM", "other.example", ":8443", ":443", "/", "/a", "/A", "/b", "/./", "/../", "//", "?", "x=1", "y=2", "&", "#", "f", "%2F", "%20", " ", "@", "u:p", ".", "-", ""}

func init() {
	n := len(grid)
	Register(&Prop{
		ID: "C14",
		Rule: fmt.Sprintf("exhaustive grid: %d schemes x %d hosts(+port, case) x %d paths (empty, /, trailing slash, case, dot segments, doubled slashes) x %d queries (none, empty, single, reordered pair, repeated key with equal/differing/swapped values, a whole URL as a value) x %d fragments = %d IRIs; every ordered pair x both scheme flags must satisfy a.Equals(b,cs) <=> refKey(a,cs)=refKey(b,cs) (hence reflexive, symmetric, transitive); IRIs.Contains must agree with exists-member-Equals on sampled lists, and for every grid IRI a list holding it (IRI list and item list) must contain exactly the grid IRIs of the same host and path that the reference calls equivalent; a second grid of %d IRIs whose paths and queries hold percent-escaped reserved characters (%%23 %%3F %%2F %%25 %%20, escaped UTF-8) under the same oracle; a third grid of the well-known constants (public collection, ActivityStreams and security context addresses) in 11 presentations each, under the same oracle for Equals and for membership in IRI and item lists; "+
			"seeded random strings and near-URLs are held to reflexivity and symmetry; one case = one row of the grid (a fixed left IRI against all right IRIs) or one random pair; distinct = row / pair; non-trivial = every row (each holds equal and unequal pairs)",
			len(gridSchemes), len(gridHosts), len(gridPaths), len(gridQueries), len(gridFrags), n, len(escGrid)),
		Layers: func(tier string) []Layer {
			return []Layer{
				{Name: "grid-rows", N: n, Exhaustive: true, Run: func(c *Ctx, idx int) {
					a := grid[idx]
					ia := vocab.IRI(a.S)
					c.Distinct("row|"+a.S, true)
					if idx%500 == 0 {
						c.Sample(map[string]any{"left": a.S, "compared_with": n, "flags": "checkScheme in {true,false}"})
					}
					var eqTrue, eqFalse int64
					c.Guard("IRI.Equals", func() {
						for j := range grid {
							b := grid[j]
							ib := vocab.IRI(b.S)
							for f, cs := range []bool{true, false} {
								got := ia.Equals(ib, cs)
								want := a.Key[f] == b.Key[f]
								if got {
									eqTrue++
								} else {
									eqFalse++
								}
								if got != want {
									law := "equal-but-different-key"
									if want {
										law = "same-key-but-unequal"
									}
									c.Fail(fmt.Sprintf("iri|Equals|%s|%s|%s", iriClass(a.S), iriClass(b.S), law),
										fmt.Sprintf("IRI(%q).Equals(%q, %v) = %v, reference normaliser says %v", a.S, b.S, cs, got, want),
										map[string]any{"a": a.S, "b": b.S, "checkScheme": cs, "got": got, "want": want, "key_a": a.Key[f], "key_b": b.Key[f]})
								}
							}
						}
					})
					c.Eval(2 * n)
					c.Count("comparisons", int64(2*n))
					c.Count("equal-results", eqTrue)
					c.Count("unequal-results", eqFalse)
					// membership must agree with Equals(.., false)
					if idx%9 == 0 {
						lst := vocab.IRIs{}
						for j := (idx * 7) % n; len(lst) < 5; j = (j + 131) % n {
							lst = append(lst, vocab.IRI(grid[j].S))
						}
						c.Guard("IRIs.Contains", func() {
							for j := 0; j < n; j += 13 {
								x := vocab.IRI(grid[j].S)
								want := false
								for _, m := range lst {
									if m.Equals(x, false) || x.Equals(m, false) {
										want = true
									}
								}
								if got := lst.Contains(x); got != want {
									c.Fail("iri|Contains|disagrees-with-Equals", fmt.Sprintf("IRIs%v.Contains(%q) = %v but exists-member-Equals = %v", lst, x, got, want), map[string]any{"list": lst, "x": x})
								}
								c.Count("contains-checks", 1)
							}
						})
					}
				}},
				{Name: "membership-neighbours", N: len(grid), Exhaustive: true, Run: func(c *Ctx, idx int) {
					// a list holding one grid IRI (in an IRI list and in an item list, next to two unrelated members), probed with
					// every grid IRI of the same host and path: present exactly when the reference normaliser says equivalent
					a := grid[idx]
					c.Distinct("member|"+a.S, true)
					// before the member under test: an unrelated member, an empty one (what a list of ids holds for a member without an
					// id), and a near miss - same host and path, another query - so that a scan that stops early, or that carries
					// something over from a partial match, shows
					near := a
					pairsOf := func(g gridIRI) []string {
						q := g.Key[1][strings.LastIndexByte(g.Key[1], '|')+1:]
						if q == "" {
							return nil
						}
						return strings.Split(q, "&")
					}
					ap := pairsOf(a)
					for _, j := range gridNeighbours[idx] {
						if grid[j].Key[1] == a.Key[1] {
							continue
						}
						if near.S == a.S {
							near = grid[j] // any near miss, unless a better one turns up:
						}
						// ... one whose query parameters are some, not all, of a's (a partial match that comes first)
						np := pairsOf(grid[j])
						if len(np) > 0 && len(np) < len(ap) {
							sub := true
							for _, x := range np {
								found := false
								for _, y := range ap {
									found = found || x == y
								}
								sub = sub && found
							}
							if sub {
								near = grid[j]
								break
							}
						}
					}
					lst := vocab.IRIs{"https://unrelated.example/first", "", vocab.IRI(near.S), vocab.IRI(a.S), "https://unrelated.example/last"}
					il := vocab.ItemCollection{vocab.IRI("https://unrelated.example/first"), vocab.IRI(""), vocab.IRI(near.S), vocab.IRI(a.S), &vocab.Object{ID: "https://unrelated.example/last", Type: vocab.NoteType}}
					c.Pending("IRIs.Contains over the neighbours of " + a.S)
					c.Guard("IRIs.Contains", func() {
						for _, j := range gridNeighbours[idx] {
							b := grid[j]
							want := a.Key[1] == b.Key[1] || near.Key[1] == b.Key[1]
							if got := lst.Contains(vocab.IRI(b.S)); got != want {
								c.Fail(fmt.Sprintf("iri|Contains|%s|%s|neighbour", iriClass(a.S), iriClass(b.S)), fmt.Sprintf("IRIs%v.Contains(%q) = %v, reference normaliser says %v", lst, b.S, got, want), map[string]any{"list": lst, "x": b.S})
							}
							if got := il.Contains(vocab.IRI(b.S)); got != want {
								c.Fail(fmt.Sprintf("iri|ItemCollection.Contains|%s|%s|neighbour", iriClass(a.S), iriClass(b.S)), fmt.Sprintf("ItemCollection%v.Contains(%q) = %v, reference normaliser says %v", il, b.S, got, want), map[string]any{"x": b.S})
							}
							c.Count("contains-checks", 2)
						}
					})
					c.Eval(2 * len(gridNeighbours[idx]))
				}},
				{Name: "escaped-paths", N: len(escGrid), Exhaustive: true, Run: func(c *Ctx, idx int) {
					a := escGrid[idx]
					ia := vocab.IRI(a.S)
					c.Distinct("esc-row|"+a.S, true)
					c.Guard("IRI.Equals", func() {
						for _, b := range escGrid {
							for f, cs := range []bool{true, false} {
								got, want := ia.Equals(vocab.IRI(b.S), cs), a.Key[f] == b.Key[f]
								c.Count("escaped-comparisons", 1)
								if got != want {
									law := "equal-but-different-key"
									if want {
										law = "same-key-but-unequal"
									}
									c.Fail("iri|Equals|escaped-path|"+law, fmt.Sprintf("IRI(%q).Equals(%q, %v) = %v, reference normaliser says %v", a.S, b.S, cs, got, want),
										map[string]any{"a": a.S, "b": b.S, "checkScheme": cs, "got": got, "want": want, "key_a": a.Key[f], "key_b": b.Key[f]})
								}
							}
						}
					})
					c.Eval(2 * len(escGrid))
				}},
				{Name: "constants", N: len(constGrid), Exhaustive: true, Run: func(c *Ctx, idx int) {
					a := constGrid[idx]
					ia := vocab.IRI(a.S)
					c.Distinct("const-row|"+a.S, true)
					c.Guard("IRI.Equals", func() {
						for _, b := range constGrid {
							for f, cs := range []bool{true, false} {
								got, want := ia.Equals(vocab.IRI(b.S), cs), a.Key[f] == b.Key[f]
								c.Count("constant-comparisons", 1)
								if got != want {
									c.Fail("iri|Equals|constant|disagrees", fmt.Sprintf("IRI(%q).Equals(%q, %v) = %v, reference normaliser says %v", a.S, b.S, cs, got, want), map[string]any{"a": a.S, "b": b.S, "checkScheme": cs})
								}
							}
						}
					})
					// membership: the needle a against every one-member and two-member list drawn from the grid
					c.Guard("IRIs.Contains", func() {
						for j, b := range constGrid {
							other := constGrid[(j+5)%len(constGrid)]
							for _, lst := range []vocab.IRIs{{vocab.IRI(b.S)}, {vocab.IRI(other.S), vocab.IRI(b.S)}} {
								want := false
								for _, m := range lst {
									if k, _ := refKey(string(m), false); k == a.Key[1] {
										want = true
									}
								}
								c.Count("constant-contains", 1)
								if got := lst.Contains(ia); got != want {
									c.Fail("iri|Contains|constant|disagrees", fmt.Sprintf("IRIs%v.Contains(%q) = %v, reference normaliser says %v", lst, a.S, got, want), map[string]any{"list": lst, "x": a.S})
								}
								// item lists answer the same for IRI members
								il := vocab.ItemCollection{}
								for _, m := range lst {
									il = append(il, m)
								}
								if got := il.Contains(ia); got != want {
									c.Fail("iri|ItemCollection.Contains|constant|disagrees", fmt.Sprintf("ItemCollection%v.Contains(%q) = %v, reference normaliser says %v", lst, a.S, got, want), map[string]any{"list": lst, "x": a.S})
								}
							}
						}
					})
					c.Eval(4 * len(constGrid))
				}},
				{Name: "strings", N: tierN(tier, 50000, 1000000), Run: func(c *Ctx, idx int) {
					mk := func() string {
						switch c.R.Intn(4) {
						case 0:
							return nonURLStrings[c.R.Intn(len(nonURLStrings))]
						case 1:
							return grid[c.R.Intn(n)].S
						}
						sb := strings.Builder{}
						for k := 1 + c.R.Intn(7); k > 0; k-- {
							sb.WriteString(nearAlphabet[c.R.Intn(len(nearAlphabet))])
						}
						return sb.String()
					}
					a, b := mk(), mk()
					if c.R.Intn(4) == 0 {
						b = strings.ToUpper(a)
					}
					c.Distinct("pair|"+a+"|"+b, a != b)
					ia, ib := vocab.IRI(a), vocab.IRI(b)
					c.Guard("IRI.Equals", func() {
						for _, cs := range []bool{true, false} {
							if !ia.Equals(ia, cs) {
								c.Fail("iri|Equals|arbitrary|reflexive", fmt.Sprintf("IRI(%q).Equals(itself, %v) is false", a, cs), map[string]any{"a": a, "checkScheme": cs})
							}
							ab, ba := ia.Equals(ib, cs), ib.Equals(ia, cs)
							if ab != ba {
								ka, oka := refKey(a, cs)
								kb, okb := refKey(b, cs)
								cls := "arbitrary"
								if oka && okb {
									cls = "urls"
								}
								c.Fail("iri|Equals|"+cls+"|symmetric", fmt.Sprintf("IRI(%q).Equals(%q,%v)=%v but the converse is %v", a, b, cs, ab, ba),
									map[string]any{"a": a, "b": b, "checkScheme": cs, "key_a": ka, "key_b": kb})
							}
						}
					})
					c.Eval(6)
					c.Count("string-pairs", 1)
				}},
			}
		},
		Floors: func(tier string) map[string]int64 {
			return map[string]int64{"comparisons": int64(2 * n * n), "string-pairs": 40000, "contains-checks": 1000}
		},
		Assumptions: []string{
			"reference normaliser: net/url parse, lower-cased host with port, path.Clean of the path with \"\" == \"/\", lower-cased, sorted multiset of query pairs, lower-cased scheme when asked",
			"outside the grids by the quantifier: letter case inside queries, userinfo, an escaped character against its literal form",
		},
	})
}
