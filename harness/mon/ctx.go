// Package mon holds the per-property workloads and online oracles. Each property registers a
// list of layers; a layer is a finite, deterministically addressed list of cases. The child
// process (cmd/vdrive) iterates the cases of its shard, the supervisor (cmd/vsup) merges what
// the children observed and produces the verdict.
package mon

import (
	"encoding/json"
	"fmt"
	"hash/fnv"
	"math/rand"
	"os"
	"regexp"
	"runtime"
	"sort"
	"strings"
	"sync"

	"verif/harness/trace"
)

type Finding = trace.Finding

// Layer is a finite list of cases. Run must be a pure function of (seed, idx) for random layers
// and of idx alone for exhaustive layers.
type Layer struct {
	Name       string
	N          int
	Exhaustive bool // seed independent, enumerates a finite space completely
	Run        func(c *Ctx, idx int)
}

// Prop describes the workload of one property.
type Prop struct {
	ID     string
	Layers func(tier string) []Layer
	// Floors: minimal observation counts (counter name -> minimum) below which a run is inconclusive.
	Floors func(tier string) map[string]int64
	Rule   string // how cases are generated and what makes one distinct / non-trivial
	// Builds lists the build variants the supervisor runs for the tier ("plain" always first).
	Builds func(tier string) []string
	// Init is called once in the child before the first case (e.g. to install hooks).
	Init func(c *Ctx)
	// Finish is called once in the child after the last case of the shard.
	Finish      func(c *Ctx)
	Assumptions []string
	WatchdogS   int      // per-child watchdog in seconds (0 = default)
	OneShard    []string // build variants that run as a single child (e.g. the race build that spawns its own goroutines)
}

var Registry = map[string]*Prop{}

func Register(p *Prop) { Registry[p.ID] = p }

// Ctx is the per-child observation context. It is safe for concurrent use (C12 drives goroutines).
type Ctx struct {
	Prop           string
	Tier           string
	Seed           int64
	Build          string
	Shard, NShards int

	Layer string
	Index int
	R     *rand.Rand // per-case PRNG

	mu              sync.Mutex
	evals           int64
	counters        map[string]int64
	fps             map[uint64]struct{}
	nontriv         map[uint64]struct{}
	findings        []Finding
	perSig          map[string]int
	samples         []any
	perLayerSamples map[string]int
	pending         *os.File
	flog            *os.File
	Verbose         bool
	Replay          bool
}

func NewCtx(prop, tier string, seed int64, build string, shard, nshards int, pendingPath string) *Ctx {
	c := &Ctx{Prop: prop, Tier: tier, Seed: seed, Build: build, Shard: shard, NShards: nshards,
		counters: map[string]int64{}, fps: map[uint64]struct{}{}, nontriv: map[uint64]struct{}{}, perSig: map[string]int{}}
	if pendingPath != "" {
		f, err := os.OpenFile(pendingPath, os.O_CREATE|os.O_RDWR|os.O_TRUNC, 0o644)
		if err == nil {
			c.pending = f
		}
		if f, err := os.OpenFile(strings.TrimSuffix(pendingPath, ".pending")+".findings.jsonl", os.O_CREATE|os.O_WRONLY|os.O_APPEND, 0o644); err == nil {
			c.flog = f
		}
	}
	return c
}

// Pending records, before the library is called, what is about to be executed. The record
// survives any process death (the page cache holds it), so the supervisor can attribute a crash.
func (c *Ctx) Pending(op string) {
	if c.pending == nil {
		return
	}
	var buf [512]byte
	s := fmt.Sprintf("%s\t%d\t%s", c.Layer, c.Index, op)
	if len(s) > 511 {
		s = s[:511]
	}
	n := copy(buf[:], s)
	for i := n; i < len(buf); i++ {
		buf[i] = ' '
	}
	buf[511] = '\n'
	_, _ = c.pending.WriteAt(buf[:], 0)
}

func (c *Ctx) ClearPending() {
	if c.pending == nil {
		return
	}
	var buf [512]byte
	for i := range buf {
		buf[i] = ' '
	}
	buf[511] = '\n'
	_, _ = c.pending.WriteAt(buf[:], 0)
}

// Eval counts n calls into the library observed by a monitor.
func (c *Ctx) Eval(n int) {
	c.mu.Lock()
	c.evals += int64(n)
	c.mu.Unlock()
}

// Count bumps a named observation counter.
func (c *Ctx) Count(name string, n int64) {
	c.mu.Lock()
	c.counters[name] += n
	c.mu.Unlock()
}

func H64(s string) uint64 {
	h := fnv.New64a()
	_, _ = h.Write([]byte(s))
	return h.Sum64()
}

// Distinct records the fingerprint of the abstract case; nontrivial says whether the case is
// non-trivial by the property's stated rule.
func (c *Ctx) Distinct(fp string, nontrivial bool) {
	h := H64(fp)
	c.mu.Lock()
	c.fps[h] = struct{}{}
	if nontrivial {
		c.nontriv[h] = struct{}{}
	}
	c.mu.Unlock()
}

const maxFindingsPerSig = 3
const maxSamples = 6

// Fail records an oracle failure for the current case.
func (c *Ctx) Fail(sig, what string, detail map[string]any) {
	c.mu.Lock()
	defer c.mu.Unlock()
	c.perSig[sig]++
	if c.perSig[sig] > maxFindingsPerSig {
		return
	}
	f := Finding{Prop: c.Prop, Sig: sig, What: what, Layer: c.Layer, Index: c.Index, Seed: c.Seed, Build: c.Build, Detail: detail}
	c.findings = append(c.findings, f)
	if c.flog != nil {
		if b, err := json.Marshal(f); err == nil {
			_, _ = c.flog.Write(append(b, '\n'))
		}
	}
	if c.Verbose {
		b, _ := json.Marshal(detail)
		fmt.Fprintf(os.Stderr, "FAIL %s %s:%d sig=%s :: %s %s\n", c.Prop, c.Layer, c.Index, sig, what, b)
	}
}

// Sample keeps a few of the actual cases for the evidence file.
func (c *Ctx) Sample(x any) {
	c.mu.Lock()
	if c.perLayerSamples == nil {
		c.perLayerSamples = map[string]int{}
	}
	if c.perLayerSamples[c.Layer] < 2 && len(c.samples) < 10 {
		c.perLayerSamples[c.Layer]++
		c.samples = append(c.samples, map[string]any{"layer": c.Layer, "index": c.Index, "case": x})
	}
	c.mu.Unlock()
}

func (c *Ctx) WantSample() bool {
	c.mu.Lock()
	defer c.mu.Unlock()
	return c.perLayerSamples[c.Layer] < 2 && len(c.samples) < 10
}

type Result = trace.Result

func (c *Ctx) Result() *Result {
	c.mu.Lock()
	defer c.mu.Unlock()
	r := &Result{Done: true, Prop: c.Prop, Build: c.Build, Shard: c.Shard, Evals: c.evals, Counters: c.counters,
		Findings: c.findings, SigCounts: c.perSig, Samples: c.samples}
	for h := range c.fps {
		r.FPs = append(r.FPs, h)
	}
	for h := range c.nontriv {
		r.NonTriv = append(r.NonTriv, h)
	}
	sort.Slice(r.FPs, func(i, j int) bool { return r.FPs[i] < r.FPs[j] })
	sort.Slice(r.NonTriv, func(i, j int) bool { return r.NonTriv[i] < r.NonTriv[j] })
	return r
}

var addrRe = regexp.MustCompile(`0x[0-9a-fA-F]+`)
var numRe = regexp.MustCompile(`\b\d+\b`)
var nilRecvRe = regexp.MustCompile(`value method github\.com/go-ap/activitypub\.\w+\.(\w+) called using nil \*\w+ pointer`)
var recvRe = regexp.MustCompile(`\(\*\w+\)\.`)

// PanicSig builds the crash signature: message with addresses and numbers stripped + innermost
// library frame.
func PanicSig(entry string, r any) (sig, msg, frame string) {
	msg = fmt.Sprint(r)
	m := nilRecvRe.ReplaceAllString(msg, "value method T.$1 called using nil *T pointer")
	m = addrRe.ReplaceAllString(m, "ADDR")
	m = numRe.ReplaceAllString(m, "N")
	if len(m) > 120 {
		m = m[:120]
	}
	frame = recvRe.ReplaceAllString(innermostLibFrame(), "(*T).")
	return "panic|" + entry + "|" + m + "|" + frame, msg, frame
}

func innermostLibFrame() string {
	pcs := make([]uintptr, 64)
	n := runtime.Callers(3, pcs)
	frames := runtime.CallersFrames(pcs[:n])
	for {
		f, more := frames.Next()
		if strings.HasPrefix(f.Function, "github.com/go-ap/activitypub.") {
			fn := strings.TrimPrefix(f.Function, "github.com/go-ap/activitypub.")
			return fn
		}
		if !more {
			break
		}
	}
	return "?"
}

// Guard runs fn and converts a panic into a finding; returns true if fn panicked.
func (c *Ctx) Guard(entry string, fn func()) (panicked bool) {
	defer func() {
		if r := recover(); r != nil {
			panicked = true
			sig, msg, frame := PanicSig(entry, r)
			c.Fail(sig, "panic in "+entry+": "+msg, map[string]any{"entry": entry, "panic": msg, "frame": frame})
		}
	}()
	fn()
	return false
}

// CaseSeed derives the per-case PRNG seed.
func CaseSeed(seed int64, layer string, idx int) int64 {
	return int64(H64(fmt.Sprintf("%d/%s/%d", seed, layer, idx)) & 0x7fffffffffffffff)
}

// RunShard iterates the cases of this shard. only, when non-empty, restricts to "layer:index".
func RunShard(c *Ctx, p *Prop, only, after string) *Result {
	layers := p.Layers(c.Tier)
	layerN := map[string]int{}
	layerEx := map[string]bool{}
	if p.Init != nil {
		p.Init(c)
	}
	var cases int64
	onlyLayer, onlyIdx := "", -1
	if only != "" {
		i := strings.LastIndexByte(only, ':')
		onlyLayer = only[:i]
		fmt.Sscanf(only[i+1:], "%d", &onlyIdx)
	}
	afterLayer, afterIdx, skipping := "", -1, false
	if after != "" {
		i := strings.LastIndexByte(after, ':')
		afterLayer = after[:i]
		fmt.Sscanf(after[i+1:], "%d", &afterIdx)
		skipping = true
	}
	layerPos := map[string]int{}
	for i, l := range layers {
		layerPos[l.Name] = i
	}
	for _, l := range layers {
		layerN[l.Name] = l.N
		layerEx[l.Name] = l.Exhaustive
		if onlyLayer != "" && l.Name != onlyLayer {
			continue
		}
		for idx := 0; idx < l.N; idx++ {
			if onlyIdx >= 0 {
				if idx != onlyIdx {
					continue
				}
			} else if idx%c.NShards != c.Shard {
				continue
			}
			if skipping {
				if layerPos[l.Name] < layerPos[afterLayer] || (l.Name == afterLayer && idx <= afterIdx) {
					continue
				}
				skipping = false
			}
			c.Layer, c.Index = l.Name, idx
			c.R = rand.New(rand.NewSource(CaseSeed(c.Seed, l.Name, idx)))
			c.Pending("case")
			run := l.Run
			c.Guard(l.Name, func() { run(c, idx) })
			cases++
		}
	}
	c.ClearPending()
	if p.Finish != nil && only == "" {
		p.Finish(c)
	}
	r := c.Result()
	r.Cases = cases
	r.LayerN = layerN
	r.LayerEx = layerEx
	return r
}

func newRand(seed int64) *rand.Rand { return rand.New(rand.NewSource(seed)) }
