package mon

import (
	"bytes"
	"embed"
	"encoding/base64"
	"encoding/gob"
	"encoding/json"
	"fmt"
	"math/rand"
	"reflect"
	"runtime"
	"runtime/debug"
	"sort"
	"strings"
	"syscall"
	"time"
	"unsafe"

	vocab "github.com/go-ap/activitypub"

	"verif/harness/vmodel"
)

// C04: decoders are total: no input makes them panic, hang or blow the stack.

type decodeEntry struct {
	Name string
	Call func(b []byte) (any, error)
}

// decodeEntries discovers every exported decode method by reflection, plus the two package functions.
func decodeEntries() []decodeEntry {
	out := []decodeEntry{
		{"UnmarshalJSON(pkg)", func(b []byte) (any, error) { return vocab.UnmarshalJSON(b) }},
		{"GobDecode(pkg)", func(b []byte) (any, error) { return vocab.GobDecode(b) }},
	}
	types := []reflect.Type{}
	for _, k := range vmodel.Kinds {
		types = append(types, reflect.TypeOf(k.New()).Elem())
	}
	types = append(types, vmodel.IriT, vmodel.IrisT, vmodel.IcT, vmodel.NlvT, reflect.TypeOf(vocab.LangRefValue{}), vmodel.LangT, reflect.TypeOf(vocab.Content{}),
		vmodel.MimeT, vmodel.AvtT, vmodel.SrcT, vmodel.PkT, vmodel.EpT)
	for _, t := range types {
		t := t
		for _, m := range []string{"UnmarshalJSON", "UnmarshalText", "GobDecode", "UnmarshalBinary"} {
			m := m
			meth, ok := reflect.PointerTo(t).MethodByName(m)
			if !ok || meth.Type.NumIn() != 2 || meth.Type.In(1) != reflect.TypeOf([]byte(nil)) {
				continue
			}
			out = append(out, decodeEntry{"(*" + t.Name() + ")." + m, func(b []byte) (any, error) {
				p := reflect.New(t)
				res := p.MethodByName(m).Call([]reflect.Value{reflect.ValueOf(b)})
				var err error
				if len(res) == 1 && !res[0].IsNil() {
					err = res[0].Interface().(error)
				}
				return p.Interface(), err
			}})
		}
	}
	sort.Slice(out, func(i, j int) bool { return out[i].Name < out[j].Name })
	return out
}

var allDecodeEntries = decodeEntries()

// ---- corpus ----

//go:embed gobcorpus/*.bin
var gobCorpusFS embed.FS

// the library's gob encodings of generated values, captured once and committed: gob writes maps in random
// order, so encoding them at start-up would make the corpus (and every mutation derived from it) differ per process
func gobCorpus() [][]byte {
	ents, _ := gobCorpusFS.ReadDir("gobcorpus")
	var out [][]byte
	for _, e := range ents {
		if b, err := gobCorpusFS.ReadFile("gobcorpus/" + e.Name()); err == nil {
			out = append(out, b)
		}
	}
	return out
}

func deep(open, close string, n int) []byte {
	return []byte(strings.Repeat(open, n) + strings.Repeat(close, n))
}

var allTerms = func() []string {
	seen := map[string]bool{}
	var out []string
	add := func(t reflect.Type) {
		for i := 0; i < t.NumField(); i++ {
			if !t.Field(i).IsExported() {
				continue
			}
			tm := vmodel.Term(t.Field(i))
			if !seen[tm] {
				seen[tm] = true
				out = append(out, tm)
			}
		}
	}
	for _, k := range vmodel.Kinds {
		add(reflect.TypeOf(k.New()).Elem())
	}
	add(vmodel.EpT)
	add(vmodel.PkT)
	for _, t := range []string{"nameMap", "summaryMap", "contentMap", "preferredUsernameMap", "@context"} {
		out = append(out, t)
	}
	sort.Strings(out)
	return out
}()

var mistypedValues = []string{`null`, `true`, `1`, `-1.5e400`, `1e999999`, `"str"`, `""`, `[]`, `[[]]`, `[[[["x"]]]]`, `{}`, `{"type":"Note"}`, `["a",1,null,{}]`, `{"en":"x","fr":null}`, `"https://example.com/x"`,
	`{"type":"Tombstone","id":"https://example.com/t"}`, `{"type":["Note","Article"]}`, `12345678901234567890123456789`, `"2021-13-45T99:99:99Z"`, `"P1Y2M3DT4H5M6.7S"`, `"-"`, `{"type":"IRI"}`, `{"type":"ItemCollection","items":[1]}`}

var topTypes = []string{"Note", "Person", "Create", "Question", "OrderedCollectionPage", "Place", "Profile", "Relationship", "Tombstone", "Mention", "Arrive", "Collection", ""}

func buildCorpus() [][]byte {
	var c [][]byte
	for _, m := range mocks {
		c = append(c, m.Data)
	}
	// the library's own encodings of generated values, both codecs
	for i := 0; i < 160; i++ {
		g := vmodel.NewGen(newRand(int64(i) + 31337))
		g.Exact = true
		x, _ := randomValue(g, 2)
		if it, ok := x.(vocab.Item); ok {
			if b, err := vocab.MarshalJSON(it); err == nil && len(b) > 0 {
				c = append(c, b)
			}
		}
	}
	c = append(c, gobCorpus()...)
	// leaf encodings
	nlv := vocab.NaturalLanguageValues{{Ref: "en", Value: vocab.Content("hello")}, {Ref: "fr", Value: vocab.Content("salut")}}
	for _, f := range []func() ([]byte, error){nlv.GobEncode, nlv.MarshalJSON, nlv[0].GobEncode, nlv[0].MarshalJSON, vocab.IRIs{"https://a.example/1", "https://a.example/2"}.GobEncode,
		vocab.Source{MediaType: "text/x"}.GobEncode, vocab.PublicKey{ID: "https://a.example/k"}.GobEncode, vocab.MimeType("text/html").GobEncode,
		vocab.LangRef("en").GobEncode, vocab.Content("text").GobEncode} {
		if b, err := f(); err == nil {
			c = append(c, b)
		}
	}
	// (gob streams of the wrong shape are part of the committed gobcorpus: w-*.bin)
	// structural hostile documents
	for _, s := range []string{``, ` `, `{`, `}`, `[`, `]`, `"`, `""`, `"a`, `nul`, `null`, `true`, `0`, `-`, `1e`, `{}`, `[]`, `[[]]`, `{"":""}`, `{"type"}`, `{"type":}`, `{"type":"Note",}`, `[,]`, `{"a":1}{"b":2}`,
		`{"type":"Note","type":"Person","id":"https://a.example/1","id":42}`, `{"id":"https://a.example/1","type":"Note","name":{"en":{"en":{"en":"deep"}}}}`,
		`{"type":"Create","object":{"type":"Create","object":{"type":"Create","object":{"type":"Create","object":"https://a.example/o"}}}}`,
		`{"type":"Collection","items":{"type":"Collection","items":{"type":"Collection","items":[[[["https://a.example/i"]]]]}}}`,
		`{"type":"Note","to":"https://a.example/x","cc":{"id":"https://a.example/y"},"bcc":[["https://a.example/z"]],"tag":7,"audience":true}`,
		`{"type":"Person","publicKey":"str","endpoints":[1,2],"streams":{"a":1},"preferredUsername":["x","y"],"inbox":{"type":"OrderedCollection","first":{"type":"OrderedCollectionPage","next":{"type":"OrderedCollectionPage"}}}}`,
		`{"type":"Question","closed":"2020-01-01T00:00:00Z","oneOf":[{"type":"Note","name":"a"},{"type":"Note","name":"a"}],"anyOf":"x"}`,
		`{"type":"Place","latitude":"12.5","longitude":1e400,"radius":1.5,"units":5,"accuracy":null,"altitude":[1]}`,
		`{"type":"Tombstone","formerType":["Note"],"deleted":12345}`, `{"type":"Link","href":["https://a.example/h"],"rel":{"id":"x"},"height":-5,"width":1e30,"hrefLang":7}`,
		`{"type":"Note","published":"yesterday","updated":"","startTime":"2021-02-30T25:61:61Z","duration":"P","endTime":"0000-00-00T00:00:00Z"}`,
		`{"type":"Note","source":"plain","content":"a\u0000b\ud800","name":"\ud83d","summary":"\\u00"}`, "{\"type\":\"Note\",\"name\":\"a\xffb\"}", "\xef\xbb\xbf{\"type\":\"Note\"}",
		`{"type":"note"}`, `{"type":""}`, `{"type":null,"id":null}`, `{"type":{"type":"Note"}}`, `{"@context":[{"a":{"b":[]}}],"type":"Note"}`, `"https://a.example/iri"`, `"not an iri"`, `["https://a.example/1",["https://a.example/2"],{"type":"Note"},null,3]`,
		`{"type":"OrderedCollection","totalItems":-1,"orderedItems":"https://a.example/only"}`, `{"type":"OrderedCollection","totalItems":18446744073709551616,"orderedItems":[]}`} {
		c = append(c, []byte(s))
	}
	for _, n := range []int{50, 299, 300, 301, 5000} {
		c = append(c, deep("[", "]", n), deep(`{"object":`, `}`, n), []byte(strings.Repeat("[", n)), []byte(`{"type":"Create","object":`+strings.Repeat(`{"type":"Create","object":`, n)+`null`+strings.Repeat(`}`, n+1)))
	}
	c = append(c, []byte(`{"type":"Note","name":"`+strings.Repeat("x", 70000)+`"}`), []byte(`{"type":"Note","tag":[`+strings.Repeat(`"https://a.example/t",`, 3000)+`"https://a.example/last"]}`))
	// every term given every JSON kind
	for ti, term := range allTerms {
		for vi, v := range mistypedValues {
			typ := topTypes[(ti+vi)%len(topTypes)]
			c = append(c, []byte(fmt.Sprintf(`{"id":"https://a.example/m","type":%q,%q:%s}`, typ, term, v)))
		}
	}
	// nesting through every item-valued term, for every top type (a decoder that does repeated work per level shows as super-linear work)
	for ti, term := range allTerms {
		if !vmodel.ItemTerms[term] {
			continue
		}
		for _, depth := range []int{12, 16} {
			typ := topTypes[(ti+depth)%len(topTypes)]
			for _, t := range []string{typ, "Question", "Create"} {
				open := fmt.Sprintf(`{"id":"https://a.example/n","type":%q,%q:`, t, term)
				c = append(c, []byte(strings.Repeat(open, depth)+`"https://a.example/leaf"`+strings.Repeat("}", depth)))
			}
		}
	}
	// every prefix of a few typical inputs (systematic truncation)
	gc := gobCorpus()
	small := gc[0]
	for _, g := range gc {
		if len(g) < len(small) {
			small = g
		}
	}
	for _, full := range [][]byte{[]byte("http://example.com/~jdoe"), []byte("https://example.com/~jdoe?page=2#top"), []byte(`{"id":"https://a.example/n/1","type":"Note","name":"x","to":["https://a.example/u"],"published":"2021-01-01T00:00:00Z"}`),
		[]byte(`"https://a.example/quoted"`), []byte(`{"en":"hello","fr":"salut"}`), small} {
		for i := 1; i < len(full); i++ {
			c = append(c, full[:i])
		}
	}
	// lists whose members are near-equal ids: the decoder de-duplicates list members, so every ordered pair of id variants
	// (scheme, host case, port, path form, query multiset, fragment) goes through the comparison code
	var variants []string
	for _, q := range gridQueries {
		variants = append(variants, "https://example.com/a"+q)
	}
	for _, pth := range gridPaths {
		variants = append(variants, "https://example.com"+pth)
	}
	for _, h := range gridHosts {
		variants = append(variants, "http://"+h+"/a?x=1&x=2")
	}
	variants = append(variants, "HTTPS://example.com/a", "https://example.com/a#frag", "https://example.com/a?x=1&x=2&x=3", "https://example.com/a?x=1&y=2&x=3", "https://example.com/a?x", "https://example.com/a?x=&x=", "https://example.com/a?=1")
	for i, a := range variants {
		for j, b := range variants {
			switch (i + j) % 3 {
			case 0:
				c = append(c, []byte(fmt.Sprintf(`[%q,%q]`, a, b)))
			case 1:
				c = append(c, []byte(fmt.Sprintf(`{"type":"Note","to":[%q,%q]}`, a, b)))
			default:
				c = append(c, []byte(fmt.Sprintf(`{"type":"Collection","items":[%q,{"id":%q,"type":"Person"}]}`, a, b)))
			}
		}
	}
	// every single byte, and some two-byte inputs
	for b := 0; b < 256; b++ {
		c = append(c, []byte{byte(b)})
	}
	for _, s := range []string{`""`, `[]`, `{}`, `"a`, `a"`, `0 `, ` "`, "\x00\x00", "\xff\xff", `\"`, `-1`, "\x03\x04"} {
		c = append(c, []byte(s))
	}
	return c
}

var corpus = buildCorpus()

var mutationDict = []string{`"type":"Tombstone"`, `"type":"Relationship"`, `"type":"IRI"`, `[`, `]`, `{`, `}`, `"`, `\`, `\u`, `\ud800`, `null`, `1e999`, `-`, `:`, `,`, `["https:`, `"id":`, `"items":`, `"orderedItems":[`, `"nameMap":{`, `"closed":`,
	"\x00", "\xff", "\x7f", "\x80", "\x0c\xff\x81", "\x03\x04\x00", `"object":{"type":"Create","object":`, `"to":"`, `Map`, `#`, `?x=1&x=1`}

func mutate(r *rand.Rand, in []byte) []byte {
	b := append([]byte{}, in...)
	for k := 1 + r.Intn(3); k > 0; k-- {
		if len(b) == 0 {
			b = []byte(mutationDict[r.Intn(len(mutationDict))])
			continue
		}
		switch r.Intn(9) {
		case 0: // truncate
			b = b[:r.Intn(len(b)+1)]
		case 1: // flip a byte
			b[r.Intn(len(b))] ^= byte(1 << uint(r.Intn(8)))
		case 2: // delete a span
			i := r.Intn(len(b))
			j := i + r.Intn(minInt(len(b)-i, 24)+1)
			b = append(b[:i], b[j:]...)
		case 3: // duplicate a span
			i := r.Intn(len(b))
			j := i + r.Intn(minInt(len(b)-i, 48)+1)
			b = append(b[:j], append(append([]byte{}, b[i:j]...), b[j:]...)...)
		case 4, 5: // insert a dictionary token
			i := r.Intn(len(b) + 1)
			t := mutationDict[r.Intn(len(mutationDict))]
			b = append(b[:i], append([]byte(t), b[i:]...)...)
		case 6: // splice with another corpus entry
			o := corpus[r.Intn(len(corpus))]
			if len(o) > 0 {
				b = append(b[:r.Intn(len(b)+1)], o[r.Intn(len(o)):]...)
			}
		case 7: // scalar -> array
			b = bytes.Replace(b, []byte(`"https:`), []byte(`["https:`), 1)
		case 8: // replace a byte with a random one
			b[r.Intn(len(b))] = byte(r.Intn(256))
		}
		if len(b) > 256<<10 {
			b = b[:256<<10]
		}
	}
	return b
}

func inputClass(b []byte) string {
	switch {
	case len(b) == 0:
		return "empty"
	case len(b) == 1:
		return "1-byte"
	case len(b) == 2:
		return "2-byte"
	case json.Valid(b):
		return "valid-json"
	case b[0] == '{' || b[0] == '[' || b[0] == '"':
		return "broken-json"
	}
	return "binary"
}

const allocBase, allocPerByte = 32 << 20, 16 << 10

// peak memory: the heap obtained from the OS must stay below this for the whole shard (GC is made aggressive in Init)
const heapHighWater = 768 << 20
const heapCallGrowth = 128 << 20

var heapFlagged bool

// work bound for the JSON and text decoders: heap objects allocated <= workBase + workPerByte * len(input)
const workBase, workPerByte = 20000, 40

var workMaxRatio float64

// decodeOnce runs one entry point on one input under the monitors, then the follow-up operations on what it returned.
func decodeOnce(c *Ctx, e decodeEntry, in []byte, followUps bool) {
	var res any
	var err error
	var ms0, ms1 runtime.MemStats
	c.Pending(e.Name + " :: " + base64.StdEncoding.EncodeToString(in[:minInt(len(in), 200)]))
	runtime.ReadMemStats(&ms0)
	panicked := c.Guard(e.Name, func() { res, err = e.Call(in) })
	runtime.ReadMemStats(&ms1)
	c.Eval(1)
	c.Count("decodes", 1)
	c.Count("input:"+inputClass(in), 1)
	if panicked {
		return
	}
	// judged per call: the heap must be above the mark AND this call must have grown it (what earlier layers of the same shard
	// obtained, or a collector that lags on a loaded machine, is not this input's doing)
	if ms1.HeapSys > heapHighWater && ms1.HeapSys > ms0.HeapSys && ms1.HeapSys-ms0.HeapSys >= heapCallGrowth && !heapFlagged {
		heapFlagged = true
		c.Fail("memory|"+decoderFamily(e.Name)+"|heap-high-water", fmt.Sprintf("%s on a %d byte input drove the heap obtained from the OS to %d MiB (limit %d MiB)", e.Name, len(in), ms1.HeapSys>>20, heapHighWater>>20),
			map[string]any{"entry": e.Name, "input_len": len(in), "heap_sys": ms1.HeapSys, "input_prefix": clipB(in[:minInt(len(in), 200)])})
	}
	// cumulative allocation is metered for the JSON and text decoders only: the standard gob decoder allocates a 10 MB chunk
	// for every forged length it meets and the library's item decoder tries four shapes on the same bytes, so cumulative
	// allocation of the gob entry points is not proportional to the input by construction of the dependency
	if alloc := ms1.TotalAlloc - ms0.TotalAlloc; !strings.Contains(decoderFamily(e.Name), "gob") && alloc > uint64(allocBase+allocPerByte*len(in)) {
		c.Fail("alloc|"+e.Name+"|"+inputClass(in), fmt.Sprintf("%s allocated %d bytes for a %d byte input (bound %d)", e.Name, alloc, len(in), allocBase+allocPerByte*len(in)),
			map[string]any{"entry": e.Name, "input_len": len(in), "allocated": alloc, "input_prefix": clipB(in[:minInt(len(in), 200)])})
	}
	// work meter: the number of heap objects allocated is a deterministic proxy for the work done; it must stay proportional to the input
	if mallocs := ms1.Mallocs - ms0.Mallocs; !strings.Contains(decoderFamily(e.Name), "gob") {
		if r := float64(mallocs) / float64(len(in)+256); r > workMaxRatio {
			workMaxRatio = r
		}
		if mallocs > uint64(workBase+workPerByte*len(in)) {
			c.Fail("work|"+decoderFamily(e.Name)+"|super-linear", fmt.Sprintf("%s allocated %d heap objects for a %d byte input (bound %d): the work is out of proportion to the input", e.Name, mallocs, len(in), workBase+workPerByte*len(in)),
				map[string]any{"entry": e.Name, "input_len": len(in), "mallocs": mallocs, "input_prefix": clipB(in[:minInt(len(in), 200)])})
		}
	}
	if err != nil {
		c.Count("errors-returned", 1)
	}
	if !followUps || res == nil {
		return
	}
	it, ok := res.(vocab.Item)
	if !ok || it == nil {
		return
	}
	c.Count("values-returned", 1)
	// the value is described by its Go type and, when it differs from what that Go type is normally called, the type name it
	// carries (a decoder of one struct kind fed a document of another): the operation class of the write-ahead record, hence
	// the signature of a process-fatal outcome, then names the value and the operation, not the decoder or the input.
	// The operations run in an order rotated by the input, so that one that kills the process does not hide the ones after it.
	desc := valueDesc(it)
	start := int(H64(string(in)) % uint64(len(allRoOps)))
	for k := range allRoOps {
		op := allRoOps[(start+k)%len(allRoOps)]
		c.Pending("follow-up " + op.Name + " on " + desc + " :: after " + e.Name + " " + base64.StdEncoding.EncodeToString(in[:minInt(len(in), 160)]))
		c.Guard("follow-up "+op.Name+" after "+decoderFamily(e.Name), func() { _ = op.apply(it, nil) })
		c.Eval(1)
		c.Count("follow-ups", 1)
	}
}

func valueDesc(it vocab.Item) string {
	d := fmt.Sprintf("%T", it)
	d = strings.TrimPrefix(strings.Replace(d, "activitypub.", "", 1), "vocab.")
	var typ string
	func() {
		defer func() { _ = recover() }()
		typ = string(it.GetType())
	}()
	if k, ok := vmodel.KindOfType(typ); ok && typ != "" && k.Name != strings.TrimPrefix(d, "*") {
		d += " typed " + typ
	}
	return d
}

func maxInt64(a, b int64) int64 {
	if a > b {
		return a
	}
	return b
}

var gobNestShapes = []string{"list-in-list", "object-in-object", "list-of-two"}

// gobNested builds a gob stream nested depth levels deep with the library's own wire shapes: an item list is a [][]byte, an
// object a map[string][]byte whose "object"/"tag" entry holds the next level.
func gobNested(shape string, depth int) []byte {
	data := []byte("https://example.com/~jdoe")
	enc := func(v any) []byte {
		b := bytes.Buffer{}
		if err := gob.NewEncoder(&b).Encode(v); err != nil {
			panic(err)
		}
		return b.Bytes()
	}
	for i := 0; i < depth; i++ {
		switch shape {
		case "list-in-list":
			data = enc([][]byte{data})
		case "list-of-two":
			data = enc([][]byte{[]byte("https://example.com/first"), data})
		default:
			data = enc(map[string][]byte{"id": []byte(fmt.Sprintf("https://example.com/n/%d", i)), "type": []byte("Create"), "object": data})
		}
	}
	return data
}

// the gob entry points that reach the generic item decoder
var gobNestEntries = func() []decodeEntry {
	var out []decodeEntry
	for _, e := range allDecodeEntries {
		if e.Name == "GobDecode(pkg)" || e.Name == "(*ItemCollection).GobDecode" || e.Name == "(*Activity).GobDecode" || e.Name == "(*Object).UnmarshalBinary" || e.Name == "(*OrderedCollection).GobDecode" {
			out = append(out, e)
		}
	}
	return out
}()

// the types whose decode methods are also driven on receivers that are already populated
var usedReceiverTypes = func() []reflect.Type {
	var out []reflect.Type
	for _, k := range vmodel.Kinds {
		out = append(out, reflect.TypeOf(k.New()).Elem())
	}
	return append(out, vmodel.NlvT, vmodel.IcT)
}()

type lengthCase struct {
	Name  string
	Doc   func(n int) string
	Class string // what the signature names: for lists the kind of member, whatever property holds the list
}

func repJoin(n int, f func(i int) string) string {
	sb := strings.Builder{}
	for i := 0; i < n; i++ {
		if i > 0 {
			sb.WriteByte(',')
		}
		sb.WriteString(f(i))
	}
	return sb.String()
}

// lengthCases: every way a document can be long without being deep
var lengthCases = func() []lengthCase {
	member := map[string]func(i int) string{
		"iris":         func(i int) string { return fmt.Sprintf(`"https://a.example/u/%d"`, i) },
		"the-same-iri": func(i int) string { return `"https://a.example/u/1"` },
		"objects": func(i int) string {
			return fmt.Sprintf(`{"id":"https://a.example/n/%d","type":"Note","name":"n%d"}`, i, i)
		},
		"idless-objects": func(i int) string { return fmt.Sprintf(`{"type":"Note","name":"n%d"}`, i) },
		"mentions": func(i int) string {
			return fmt.Sprintf(`{"type":"Mention","href":"https://a.example/u/%d","name":"@u%d"}`, i, i)
		},
		"unknown-typed": func(i int) string { return fmt.Sprintf(`{"type":"Hashtag","name":"#t%d"}`, i) },
		"activities": func(i int) string {
			return fmt.Sprintf(`{"id":"https://a.example/a/%d","type":"Create","actor":"https://a.example/u/1","object":{"id":"https://a.example/o/%d","type":"Note","content":"hello"}}`, i, i)
		},
		"one-element-lists": func(i int) string { return fmt.Sprintf(`["https://a.example/u/%d"]`, i) },
	}
	var out []lengthCase
	names := make([]string, 0, len(member))
	for k := range member {
		names = append(names, k)
	}
	sort.Strings(names)
	for _, mk := range names {
		f := member[mk]
		for _, host := range []string{"tag", "to", "orderedItems", "items", "url", "oneOf"} {
			if (host == "url") != (mk == "mentions" || mk == "iris") && host == "url" {
				continue
			}
			host, mk := host, mk
			out = append(out, lengthCase{Class: "list of distinct " + mk, Name: "list " + host + " of " + mk, Doc: func(n int) string {
				typ := map[string]string{"orderedItems": "OrderedCollection", "items": "Collection", "oneOf": "Question"}[host]
				if typ == "" {
					typ = "Note"
				}
				return `{"id":"https://a.example/host","type":"` + typ + `","` + host + `":[` + repJoin(n, f) + `]}`
			}})
		}
	}
	out = append(out,
		lengthCase{Name: "language map entries", Doc: func(n int) string {
			return `{"type":"Note","nameMap":{` + repJoin(n, func(i int) string { return fmt.Sprintf(`"l%d":"text %d"`, i, i) }) + `}}`
		}},
		lengthCase{Name: "one language repeated", Doc: func(n int) string {
			return `{"type":"Note","contentMap":{` + repJoin(n, func(i int) string { return fmt.Sprintf(`"en":"text %d"`, i) }) + `}}`
		}},
		lengthCase{Name: "unknown properties", Doc: func(n int) string {
			return `{"type":"Note",` + repJoin(n, func(i int) string { return fmt.Sprintf(`"x%d":"text %d"`, i, i) }) + `}`
		}},
		lengthCase{Name: "known property repeated", Doc: func(n int) string {
			return `{"type":"Note",` + repJoin(n, func(i int) string { return fmt.Sprintf(`"summary":"text %d"`, i) }) + `}`
		}},
		lengthCase{Name: "text with escapes", Doc: func(n int) string {
			return `{"type":"Note","content":"` + strings.Repeat(`a\"b\\n<p>\u00e9`, n*4) + `"}`
		}},
		lengthCase{Name: "context list", Doc: func(n int) string {
			return `{"@context":[` + repJoin(n, func(i int) string { return fmt.Sprintf(`"https://a.example/ns/%d"`, i) }) + `],"type":"Note"}`
		}},
		lengthCase{Name: "long id", Doc: func(n int) string {
			return `{"type":"Note","id":"https://a.example/` + strings.Repeat("seg/", n*4) + `"}`
		}},
		lengthCase{Name: "long query", Doc: func(n int) string {
			return `{"type":"Note","tag":["https://a.example/?` + strings.Repeat("k=v&", n*2) + `z=1","https://a.example/?` + strings.Repeat("k=v&", n*2) + `z=2"]}`
		}},
		lengthCase{Name: "big number", Doc: func(n int) string {
			return `{"type":"Place","latitude":1` + strings.Repeat("0", n) + `.5,"totalItems":` + strings.Repeat("9", n) + `}`
		}},
		lengthCase{Name: "public key pem", Doc: func(n int) string {
			return `{"type":"Person","publicKey":{"id":"https://a.example/k","owner":"https://a.example/u","publicKeyPem":"` + strings.Repeat(`MIIBIjANBgkq\n`, n*2) + `"}}`
		}},
	)
	for i := range out {
		if out[i].Class == "" {
			out[i].Class = out[i].Name
		}
	}
	return out
}()

type twinChainCase struct{ Type, Term, Host string }

// twinChainCases: one vocabulary name per struct kind (two for the large families), nested through every item-valued or
// list-valued term the kind declares, the two chains sitting in one of four list-valued host terms.
var twinChainCases = func() []twinChainCase {
	hosts := []string{"tag", "to", "items", "orderedItems"}
	var out []twinChainCase
	n := 0
	for _, k := range vmodel.Kinds {
		if k.Fam == "link" {
			continue
		}
		names := []string{k.SpecificType()}
		if len(k.Types) > 3 {
			names = append(names, k.Types[len(k.Types)-1])
		}
		for _, name := range names {
			for _, f := range k.Fields() {
				if !(vmodel.IsItemType(f.Type) || f.Type == vmodel.IcT) {
					continue
				}
				out = append(out, twinChainCase{name, f.Term, hosts[n%len(hosts)]})
				n++
			}
		}
	}
	return out
}()

func twinChainDoc(tc twinChainCase, depth int) string {
	open := fmt.Sprintf(`{"id":"https://a.example/n","type":%q,%q:`, tc.Type, tc.Term)
	chain := strings.Repeat(open, depth) + `"https://a.example/leaf"` + strings.Repeat("}", depth)
	switch tc.Host {
	case "items":
		return `{"type":"Collection","items":[` + chain + "," + chain + `]}`
	case "orderedItems":
		return `{"type":"OrderedCollection","orderedItems":[` + chain + "," + chain + `]}`
	}
	return `{"type":"Note","` + tc.Host + `":[` + chain + "," + chain + `]}`
}

// threadCPU runs f on a locked OS thread and returns the processor time that thread spent in it.
func threadCPU(f func()) time.Duration {
	runtime.LockOSThread()
	defer runtime.UnlockOSThread()
	read := func() time.Duration {
		var ts syscall.Timespec
		_, _, _ = syscall.Syscall(syscall.SYS_CLOCK_GETTIME, 3 /* CLOCK_THREAD_CPUTIME_ID */, uintptr(unsafe.Pointer(&ts)), 0)
		return time.Duration(ts.Sec)*time.Second + time.Duration(ts.Nsec)
	}
	t0 := read()
	f()
	return read() - t0
}

func maxDur(a, b time.Duration) time.Duration {
	if a > b {
		return a
	}
	return b
}

func decoderFamily(name string) string {
	switch {
	case strings.Contains(name, "JSON"):
		return "a JSON decoder"
	case strings.Contains(name, "Text"):
		return "a text decoder"
	}
	return "a gob decoder"
}

func init() {
	ne := len(allDecodeEntries)
	Register(&Prop{
		ID: "C04",
		Rule: fmt.Sprintf("%d decode entry points discovered by reflection (UnmarshalJSON / UnmarshalText / GobDecode / UnmarshalBinary on the 14 structs and 12 leaf types, plus the two package functions); corpus of %d inputs (repository mocks; the library's own JSON and gob encodings of generated values; gob streams of the wrong shape; structural hostile documents; every term x %d JSON value kinds; nesting 50-5000; 70 kB strings; every single byte; empty and 2-byte inputs); exhaustive layer: every corpus input x every entry point; random layer: 1-3 structure-aware mutations (truncate, bit flip, span delete/duplicate, dictionary insert, splice, scalar->array) of a corpus input on a random entry point; "+
			"each call runs under recover() with two memory meters (cumulative allocation <= 32 MiB + 16 KiB/byte for the JSON and text decoders; heap obtained from the OS <= 768 MiB for every decoder unless the call itself grew it by less than 128 MiB, with GC percent 25), process-fatal outcomes (stack overflow, runtime faults, sanitizer reports, hangs) are attributed by the supervisor through the write-ahead record; every returned value then goes through ~45 follow-up operations (inspect, compare, both encoders, format, deref, On*/To*); distinct = (entry point, input hash); non-trivial = input that is not rejected at the first byte (valid JSON, broken JSON starting like JSON, or a decodable gob prefix)",
			ne, len(corpus), len(mistypedValues)),
		WatchdogS: 900,
		Finish: func(c *Ctx) {
			c.Count("max-mallocs-per-256+byte-x1000", int64(workMaxRatio*1000))
		},
		Init: func(c *Ctx) {
			debug.SetGCPercent(25) // keep the heap close to the live set so that the high-water meter means something
		},
		Builds: func(tier string) []string {
			if tier == "thorough" {
				return []string{"plain", "ckptr", "asan"}
			}
			return []string{"plain"}
		},
		Layers: func(tier string) []Layer {
			return []Layer{
				{Name: "corpus-x-entries", N: len(corpus) * ne, Exhaustive: true, Run: func(c *Ctx, idx int) {
					if c.Build != "plain" && idx%10 != 0 {
						return // sanitizer builds repeat 10% of the executions
					}
					in := corpus[idx/ne]
					e := allDecodeEntries[idx%ne]
					c.Distinct(fmt.Sprintf("%s|%x", e.Name, H64(string(in))), len(in) > 2)
					c.Count("entry:"+e.Name, 1)
					if idx%20011 == 0 {
						c.Sample(map[string]any{"entry": e.Name, "input": clipB(in[:minInt(len(in), 160)]), "input_len": len(in)})
					}
					decodeOnce(c, e, in, true)
				}},
				{Name: "gob-nesting-growth", N: len(gobNestShapes) * len(gobNestEntries), Exhaustive: true, Run: func(c *Ctx, idx int) {
					// gob streams of lists nested in lists (and objects nested in objects): the work a decoder does - measured as heap
					// objects allocated, a deterministic proxy - must grow linearly with the depth. The cumulative bound used for JSON
					// does not fit gob, so the law is relative: the step from depth 12 to 18 may cost at most a few times the step
					// from depth 6 to 12. A decoder that does the work of a level twice per level above it fails by a factor of 64.
					shape := gobNestShapes[idx%len(gobNestShapes)]
					entry := gobNestEntries[idx/len(gobNestShapes)]
					c.Distinct("gobnest|"+shape+"|"+entry.Name, true)
					var m [3]uint64
					for k, depth := range []int{6, 12, 18} {
						in := gobNested(shape, depth)
						c.Pending(entry.Name + " :: gob " + shape + " nested " + fmt.Sprint(depth) + " deep")
						var ms0, ms1 runtime.MemStats
						runtime.GC()
						runtime.ReadMemStats(&ms0)
						if c.Guard(entry.Name, func() { _, _ = entry.Call(in) }) {
							return
						}
						runtime.ReadMemStats(&ms1)
						m[k] = ms1.Mallocs - ms0.Mallocs
						c.Eval(1)
						c.Count("gob-nesting-decodes", 1)
					}
					step1, step2 := int64(m[1])-int64(m[0]), int64(m[2])-int64(m[1])
					if step2 > 4*maxInt64(step1, 0)+20000 {
						c.Fail("work|gob|nesting-super-linear", fmt.Sprintf("%s on gob %s nested 6/12/18 deep allocated %d/%d/%d heap objects: the work is out of proportion to the depth", entry.Name, shape, m[0], m[1], m[2]),
							map[string]any{"entry": entry.Name, "shape": shape, "mallocs": m})
					}
				}},
				{Name: "used-receivers", N: len(usedReceiverTypes) * 4 * tierN(tier, 12, 120), Run: func(c *Ctx, idx int) {
					// decoding INTO a value that is already in use (an application re-reads a stored object into the struct it holds): the
					// receiver is a populated value of the type, its lists and texts with spare capacity, the input the library's own
					// encoding of another populated value of that type; every decode method the type has; no panic, and the receiver can
					// be inspected, compared and re-encoded afterwards
					t := usedReceiverTypes[idx%len(usedReceiverTypes)]
					m := []string{"UnmarshalJSON", "GobDecode", "UnmarshalBinary", "UnmarshalText"}[(idx/len(usedReceiverTypes))%4]
					if _, ok := reflect.PointerTo(t).MethodByName(m); !ok {
						return
					}
					g := vmodel.NewGen(newRand(int64(idx)*7 + 3))
					g.Exact, g.Spare, g.PSet = true, true, 0.5
					mk := func() reflect.Value {
						if ki := vmodel.KindIndex(t.Name()); ki >= 0 && t.Kind() == reflect.Struct {
							return reflect.ValueOf(g.Struct(vmodel.Kinds[ki], 2, true))
						}
						p := reflect.New(t)
						g.Fill(p.Elem(), t, 2)
						return p
					}
					recv, other := mk(), mk()
					var in []byte
					enc := map[string]string{"UnmarshalJSON": "MarshalJSON", "GobDecode": "GobEncode", "UnmarshalBinary": "MarshalBinary", "UnmarshalText": "MarshalText"}[m]
					c.Pending("(*" + t.Name() + ")." + enc + " for a used receiver")
					if c.Guard(enc, func() {
						if em := other.MethodByName(enc); em.IsValid() {
							if res := em.Call(nil); len(res) == 2 && res[1].IsNil() {
								in = res[0].Bytes()
							}
						}
					}) || len(in) == 0 {
						return
					}
					c.Distinct(fmt.Sprintf("used|%s|%s|%x", t.Name(), m, H64(string(in))), true)
					c.Pending("(*" + t.Name() + ")." + m + " into a populated receiver :: " + base64.StdEncoding.EncodeToString(in[:minInt(len(in), 200)]))
					if c.Guard("(*"+t.Name()+")."+m+" into a populated receiver", func() { recv.MethodByName(m).Call([]reflect.Value{reflect.ValueOf(in)}) }) {
						return
					}
					c.Eval(1)
					c.Count("used-receiver-decodes", 1)
					if it, ok := recv.Interface().(vocab.Item); ok {
						for _, op := range allRoOps {
							c.Pending("follow-up " + op.Name + " after decoding into a populated " + t.Name())
							c.Guard("follow-up "+op.Name+" after decoding into a populated receiver", func() { _ = op.apply(it, nil) })
						}
					}
				}},
				{Name: "twin-chain-growth", N: len(twinChainCases), Exhaustive: true, Run: func(c *Ctx, idx int) {
					// a list that holds the same chain of nested objects twice makes the decoder compare the two chains (lists keep
					// one member per identity). The processor time of the decode - read from the thread's own CPU clock, which a loaded
					// machine does not inflate - must grow in proportion to the depth of the chains. The law is relative: depth 16 may
					// cost at most 48 times depth 4 (4 times would be proportional); a comparison that visits a level twice per level
					// above it costs 4096 times as much. The gob form of the decoded value is put through the gob decoder under the same law.
					tc := twinChainCases[idx]
					c.Distinct("twin|"+tc.Type+"|"+tc.Term+"|"+tc.Host, true)
					var tj, tg [3]time.Duration
					for k, depth := range []int{4, 10, 16} {
						in := []byte(twinChainDoc(tc, depth))
						c.Pending("UnmarshalJSON(pkg) :: " + tc.Host + " holding twice a chain of " + tc.Type + " nested " + fmt.Sprint(depth) + " deep through " + tc.Term)
						var v vocab.Item
						var err error
						tj[k] = -1
						for rep := 0; rep < 3; rep++ {
							var d time.Duration
							if c.Guard("UnmarshalJSON(pkg)", func() { d = threadCPU(func() { v, err = vocab.UnmarshalJSON(in) }) }) {
								return
							}
							if tj[k] < 0 || d < tj[k] {
								tj[k] = d
							}
							c.Eval(1)
							c.Count("twin-chain-decodes", 1)
						}
						if err != nil || v == nil {
							c.Fail("work|json|twin-chain-refused", fmt.Sprintf("UnmarshalJSON refused a %d-byte document nested %d deep: %v", len(in), depth, err), map[string]any{"input": clipB(in[:minInt(len(in), 300)])})
							return
						}
						if tj[k] > 48*maxDur(tj[0], 100*time.Microsecond) {
							c.Fail("work|json|twin-chain-super-linear", fmt.Sprintf("UnmarshalJSON of %s holding twice a chain of %s nested through %s: %v at depth 4, %v at depth %d (%d bytes): the time is out of proportion to the input", tc.Host, tc.Type, tc.Term, tj[0], tj[k], depth, len(in)),
								map[string]any{"type": tc.Type, "term": tc.Term, "host": tc.Host, "cpu_ns": tj, "input_len": len(in)})
							return
						}
						var gb []byte
						if c.Guard("GobEncode(pkg)", func() { gb, err = vocab.GobEncode(v) }) {
							return
						}
						if err != nil || len(gb) == 0 {
							continue
						}
						c.Pending("GobDecode(pkg) :: gob form of " + tc.Host + " holding twice a chain of " + tc.Type + " nested " + fmt.Sprint(depth) + " deep through " + tc.Term)
						tg[k] = -1
						for rep := 0; rep < 3; rep++ {
							var d time.Duration
							if c.Guard("GobDecode(pkg)", func() { d = threadCPU(func() { _, _ = vocab.GobDecode(gb) }) }) {
								return
							}
							if tg[k] < 0 || d < tg[k] {
								tg[k] = d
							}
							c.Eval(1)
							c.Count("twin-chain-decodes", 1)
						}
						if tg[0] > 0 && tg[k] > 48*maxDur(tg[0], 200*time.Microsecond) {
							c.Fail("work|gob|twin-chain-super-linear", fmt.Sprintf("GobDecode of the gob form of %s holding twice a chain of %s nested through %s: %v at depth 4, %v at depth %d (%d bytes): the time is out of proportion to the input", tc.Host, tc.Type, tc.Term, tg[0], tg[k], depth, len(gb)),
								map[string]any{"type": tc.Type, "term": tc.Term, "host": tc.Host, "cpu_ns": tg, "input_len": len(gb)})
							return
						}
					}
				}},
				{Name: "length-growth", N: len(lengthCases), Exhaustive: true, Run: func(c *Ctx, idx int) {
					// the same document shape at 100 and at 800 repetitions of its repeated part (members of a list, entries of a language
					// map, unknown properties, bytes of a text...): eight times the input may cost about eight times the processor time
					// (thread CPU clock). More than 24 times is out of proportion; the signature says whether it looks quadratic (up to 192
					// times) or worse, so that a listed quadratic case that becomes cubic is a new finding.
					lc := lengthCases[idx]
					c.Distinct("length|"+lc.Name, true)
					var tj, tg [2]time.Duration
					var lens [2]int
					for k, n := range []int{100, 800} {
						in := []byte(lc.Doc(n))
						lens[k] = len(in)
						c.Pending(fmt.Sprintf("UnmarshalJSON(pkg) :: %s x %d (%d bytes)", lc.Name, n, len(in)))
						var v vocab.Item
						var err error
						tj[k] = -1
						for rep := 0; rep < 2; rep++ {
							var d time.Duration
							if c.Guard("UnmarshalJSON(pkg)", func() { d = threadCPU(func() { v, err = vocab.UnmarshalJSON(in) }) }) {
								return
							}
							if tj[k] < 0 || d < tj[k] {
								tj[k] = d
							}
							c.Eval(1)
							c.Count("length-growth-decodes", 1)
						}
						if err != nil || v == nil {
							c.Fail("work|json|length-refused|"+lc.Name, fmt.Sprintf("UnmarshalJSON refused %s x %d: %v", lc.Name, n, err), map[string]any{"input": clipB(in[:minInt(len(in), 300)])})
							return
						}
						var gb []byte
						if c.Guard("GobEncode(pkg)", func() { gb, err = vocab.GobEncode(v) }) {
							return
						}
						if err != nil || len(gb) == 0 {
							continue
						}
						c.Pending(fmt.Sprintf("GobDecode(pkg) :: gob form of %s x %d (%d bytes)", lc.Name, n, len(gb)))
						tg[k] = -1
						for rep := 0; rep < 2; rep++ {
							var d time.Duration
							if c.Guard("GobDecode(pkg)", func() { d = threadCPU(func() { _, _ = vocab.GobDecode(gb) }) }) {
								return
							}
							if tg[k] < 0 || d < tg[k] {
								tg[k] = d
							}
							c.Eval(1)
							c.Count("length-growth-decodes", 1)
						}
					}
					judge := func(codec, entry string, t [2]time.Duration) {
						if t[0] <= 0 || t[1] <= 0 {
							return
						}
						base := maxDur(t[0], 100*time.Microsecond)
						if t[1] <= 24*base {
							return
						}
						cls := "quadratic"
						if t[1] > 192*base {
							cls = "worse-than-quadratic"
						}
						c.Fail("work|"+codec+"|length-super-linear|"+lc.Class+"|"+cls, fmt.Sprintf("%s of %s: %v at 100 repetitions, %v at 800 (%d and %d bytes of JSON): the time is out of proportion to the input (%s)", entry, lc.Name, t[0], t[1], lens[0], lens[1], cls),
							map[string]any{"shape": lc.Name, "cpu_ns": t, "json_bytes": lens})
					}
					judge("json", "UnmarshalJSON", tj)
					judge("gob", "GobDecode of the gob form", tg)
				}},
				{Name: "mutations", N: tierN(tier, 100000, 5000000), Run: func(c *Ctx, idx int) {
					if c.Build != "plain" && idx%10 != 0 {
						return
					}
					in := mutate(c.R, corpus[c.R.Intn(len(corpus))])
					e := allDecodeEntries[c.R.Intn(ne)]
					c.Distinct(fmt.Sprintf("%s|%x", e.Name, H64(string(in))), len(in) > 2)
					if idx%50021 == 0 {
						c.Sample(map[string]any{"entry": e.Name, "input": clipB(in[:minInt(len(in), 160)]), "input_len": len(in)})
					}
					decodeOnce(c, e, in, true)
				}},
			}
		},
		Floors: func(tier string) map[string]int64 {
			return map[string]int64{"decodes": int64(len(corpus)*ne + tierN(tier, 80000, 4000000)), "values-returned": 20000, "follow-ups": 500000, "input:valid-json": 10000, "input:binary": 10000, "input:1-byte": 1000}
		},
		Assumptions: []string{
			"the allocation bound (32 MiB + 16 KiB per input byte) is deliberately lax: the JSON dependency allocates ~4.5 MB for a 314-byte nesting bomb before its own depth limit refuses it",
			"generation is feedback-free (no coverage-guided fuzzing engine is wired in); reach is reported, not assumed",
		},
	})
}
