package mon

import (
	"fmt"
	"reflect"
	"sort"
	"time"

	vocab "github.com/go-ap/activitypub"

	"verif/harness/vmodel"
)

// C17: timestamp ordering is a strict weak order consistent with publication time.

type tsItem struct {
	Name string
	It   vocab.Item
	Key  time.Time
	Nil  bool
}

func tsPool() []tsItem {
	base := time.Date(2020, 5, 17, 12, 0, 0, 0, time.UTC)
	plus2 := time.FixedZone("+02", 2*3600)
	minus7 := time.FixedZone("-07", -7*3600)
	type pat struct {
		name     string
		pub, upd time.Time
	}
	pats := []pat{
		{"zero", time.Time{}, time.Time{}},
		{"pub-only", base, time.Time{}},
		{"upd-only", time.Time{}, base},
		{"same-instant-other-zone", base.In(plus2), time.Time{}},
		{"same-instant-zone-upd", time.Time{}, base.In(minus7)},
		{"pub<upd", base.Add(-time.Hour), base.Add(time.Hour)},
		{"pub>upd", base.Add(time.Hour), base.Add(-time.Hour)},
		{"ns-later", base.Add(time.Nanosecond), time.Time{}},
		{"ns-earlier", base.Add(-time.Nanosecond), base.Add(-2 * time.Nanosecond)},
		{"far-future", base.AddDate(100, 0, 0), base},
		{"far-past-zone", time.Date(1970, 1, 1, 0, 0, 0, 0, plus2), time.Time{}},
		// instants outside the range a 64-bit nanosecond (1678-2262) or second counter can hold comfortably
		{"year-1700", time.Date(1700, 3, 1, 0, 0, 0, 0, time.UTC), time.Time{}},
		{"year-1500-upd", time.Time{}, time.Date(1500, 1, 1, 0, 0, 0, 0, time.UTC)},
		{"year-2300", time.Date(2300, 1, 1, 0, 0, 0, 0, time.UTC), base},
		{"year-9999", base, time.Date(9999, 12, 31, 23, 59, 59, 999999999, time.UTC)},
		{"year-1-plus-1ns", time.Time{}.Add(time.Nanosecond), time.Time{}},
		{"before-epoch", time.Date(1969, 12, 31, 23, 59, 59, 0, time.UTC), time.Date(1901, 12, 13, 20, 45, 51, 0, time.UTC)},
		// instants before the zero instant (year 0, which RFC 3339 parsing accepts) next to an unset one: "the later of the two" is then the unset one
		{"year-0-pub-only", time.Date(0, 6, 1, 0, 0, 0, 0, time.UTC), time.Time{}},
		{"year-0-upd-only", time.Time{}, time.Date(0, 6, 1, 0, 0, 0, 0, time.UTC)},
		{"year-0-both", time.Date(0, 3, 1, 0, 0, 0, 0, time.UTC), time.Date(0, 9, 1, 0, 0, 0, 0, time.UTC)},
	}
	type maker struct {
		kind string
		f    func(p, u time.Time, i int) vocab.Item
	}
	var mk []maker
	// every object kind, by reflection (a kind whose layout drifts from Object's shows up here)
	for _, k := range vmodel.Kinds {
		if k.Name == "Link" {
			continue
		}
		k := k
		mk = append(mk, maker{"*" + k.Name, func(p, u time.Time, i int) vocab.Item {
			x := reflect.ValueOf(k.New())
			// a third of the items of a kind share one id (revisions of one object): the order looks at the instants, not at the id
			id := vocab.IRI(fmt.Sprintf("https://example.com/%s/%d", k.Name, i))
			if i%3 == 0 {
				id = vocab.IRI("https://example.com/" + k.Name + "/revised")
			}
			x.Elem().FieldByName("ID").Set(reflect.ValueOf(id))
			x.Elem().FieldByName("Type").Set(reflect.ValueOf(vocab.ActivityVocabularyType(k.SpecificType())))
			x.Elem().FieldByName("Published").Set(reflect.ValueOf(p))
			x.Elem().FieldByName("Updated").Set(reflect.ValueOf(u))
			// decoys: instants that must not influence the order
			// every other instant the kind declares (startTime, endTime, a Tombstone's deleted, ...) is a far-future decoy
			for fi := 0; fi < x.Elem().NumField(); fi++ {
				f := x.Elem().Type().Field(fi)
				if f.IsExported() && f.Type == reflect.TypeOf(time.Time{}) && f.Name != "Published" && f.Name != "Updated" {
					x.Elem().Field(fi).Set(reflect.ValueOf(time.Date(2090+fi%5, 1, 1, 0, 0, 0, 0, time.UTC)))
				}
			}
			if i%2 == 1 {
				return x.Elem().Interface().(vocab.Item) // value form
			}
			return x.Interface().(vocab.Item)
		}})
	}
	var out []tsItem
	i := 0
	for pi, p := range pats {
		// every pattern on every kind
		_ = pi
		for k := 0; k < len(mk); k++ {
			m := mk[k]
			key := p.pub
			if p.upd.After(key) {
				key = p.upd
			}
			out = append(out, tsItem{Name: m.kind + ":" + p.name, It: m.f(p.pub, p.upd, i), Key: key})
			i++
		}
	}
	out = append(out, tsItem{Name: "untyped-nil", It: nil, Nil: true}, tsItem{Name: "typed-nil *Object", It: (*vocab.Object)(nil), Nil: true})
	return out
}

// refLess is the reference: nil ranks before any object; otherwise the later instant first.
func refLess(a, b tsItem) bool {
	if a.Nil {
		return !b.Nil
	}
	if b.Nil {
		return false
	}
	return a.Key.After(b.Key)
}

func init() {
	pool := tsPool()
	n := len(pool)
	Register(&Prop{
		ID: "C17",
		Rule: fmt.Sprintf("pool of %d items (all 13 object kinds, pointer and value forms, x 11 instant patterns, with start/end time decoys: zero, published only, updated only, equal instants in other zones, published<updated and the reverse, nanosecond apart, far future/past) plus untyped and typed nil; exhaustive layer: all %d ordered pairs against the key model (later of published/updated, nil first) and all %d triples for irreflexivity, asymmetry, transitivity and transitivity of incomparability; random layer: permutations of random sub-pools sorted with sort.SliceStable(ItemOrderTimestamp) and compared with an independent sort by key; one case = one (a, *, *) slab of triples or one permutation; non-trivial = slab/permutation containing at least two distinct keys",
			n, n*n, n*n*n),
		Layers: func(tier string) []Layer {
			return []Layer{
				{Name: "edit-then-compare", N: 13 * 6, Exhaustive: true, Run: func(c *Ctx, idx int) {
					// an object is ranked, then edited in place (updated bumped, published cleared, ...), then ranked again:
					// the second answer is about the instants it has now
					var kinds []vmodel.StructKind
					for _, k := range vmodel.Kinds {
						if k.Name != "Link" {
							kinds = append(kinds, k)
						}
					}
					k := kinds[idx%len(kinds)]
					edit := idx / len(kinds)
					base := time.Date(2020, 5, 17, 12, 0, 0, 0, time.UTC)
					mk := func(id string, pub, upd time.Time) (vocab.Item, reflect.Value) {
						x := reflect.ValueOf(k.New())
						x.Elem().FieldByName("ID").Set(reflect.ValueOf(vocab.IRI("https://example.com/edit/" + id)))
						x.Elem().FieldByName("Type").Set(reflect.ValueOf(vocab.ActivityVocabularyType(k.SpecificType())))
						x.Elem().FieldByName("Published").Set(reflect.ValueOf(pub))
						x.Elem().FieldByName("Updated").Set(reflect.ValueOf(upd))
						return x.Interface().(vocab.Item), x.Elem()
					}
					a, av := mk("a", base, time.Time{})
					older, _ := mk("older", base.Add(-time.Hour), time.Time{})
					newer, _ := mk("newer", base.Add(time.Hour), time.Time{})
					keyOf := func(v reflect.Value) time.Time {
						p, u := v.FieldByName("Published").Interface().(time.Time), v.FieldByName("Updated").Interface().(time.Time)
						if u.After(p) {
							return u
						}
						return p
					}
					check := func(when string) {
						ka := keyOf(av)
						for _, o := range []struct {
							n  string
							it vocab.Item
							k  time.Time
						}{{"older", older, base.Add(-time.Hour)}, {"newer", newer, base.Add(time.Hour)}} {
							c.Count("edit-comparisons", 2)
							if got, want := vocab.ItemOrderTimestamp(a, o.it), ka.After(o.k); got != want {
								c.Fail("order|after-edit|"+when, fmt.Sprintf("%s, %s: ItemOrderTimestamp(a, %s) = %v, the instants a holds now say %v", k.Name, when, o.n, got, want), map[string]any{"kind": k.Name, "when": when})
							}
							if got, want := vocab.ItemOrderTimestamp(o.it, a), o.k.After(ka); got != want {
								c.Fail("order|after-edit|"+when, fmt.Sprintf("%s, %s: ItemOrderTimestamp(%s, a) = %v, the instants a holds now say %v", k.Name, when, o.n, got, want), map[string]any{"kind": k.Name, "when": when})
							}
						}
					}
					c.Distinct(fmt.Sprintf("edit|%s|%d", k.Name, edit), true)
					c.Guard("ItemOrderTimestamp", func() {
						check("before the edit")
						switch edit {
						case 0:
							av.FieldByName("Updated").Set(reflect.ValueOf(base.Add(2 * time.Hour)))
						case 1:
							av.FieldByName("Published").Set(reflect.ValueOf(base.Add(-2 * time.Hour)))
						case 2:
							av.FieldByName("Published").Set(reflect.ValueOf(time.Time{}))
						case 3:
							av.FieldByName("Updated").Set(reflect.ValueOf(base.Add(2 * time.Hour)))
							check("after a first edit")
							av.FieldByName("Updated").Set(reflect.ValueOf(time.Time{}))
						case 4:
							av.FieldByName("ID").Set(reflect.ValueOf(vocab.IRI("https://example.com/edit/renamed")))
							av.FieldByName("Published").Set(reflect.ValueOf(base.Add(3 * time.Hour)))
						default:
							av.FieldByName("Published").Set(reflect.ValueOf(base.Add(-3 * time.Hour)))
							av.FieldByName("Updated").Set(reflect.ValueOf(base.Add(-90 * time.Minute)))
						}
						check("after the edit")
					})
				}},
				{Name: "triples", N: n, Exhaustive: true, Run: func(c *Ctx, idx int) {
					a := pool[idx]
					c.Distinct("slab|"+a.Name, true)
					less := func(x, y tsItem) bool { return vocab.ItemOrderTimestamp(x.It, y.It) }
					c.Guard("ItemOrderTimestamp", func() {
						if less(a, a) {
							c.Fail("order|irreflexive|"+nilOrObj(a), "ItemOrderTimestamp(a,a) is true for "+a.Name, map[string]any{"a": a.Name})
						}
						for _, b := range pool {
							ab, ba := less(a, b), less(b, a)
							c.Count("pairs", 1)
							if ab != refLess(a, b) {
								c.Fail(fmt.Sprintf("order|key-model|%s|%s", nilOrObj(a), nilOrObj(b)), fmt.Sprintf("ItemOrderTimestamp(%s, %s) = %v, key model says %v", a.Name, b.Name, ab, refLess(a, b)),
									map[string]any{"a": a.Name, "b": b.Name, "key_a": a.Key.UTC().Format(time.RFC3339Nano), "key_b": b.Key.UTC().Format(time.RFC3339Nano)})
							}
							if ab && ba {
								c.Fail("order|asymmetric", fmt.Sprintf("both less(%s,%s) and the converse hold", a.Name, b.Name), map[string]any{"a": a.Name, "b": b.Name})
							}
							for _, d := range pool {
								bd, ad := less(b, d), less(a, d)
								c.Count("triples", 1)
								if ab && bd && !ad {
									c.Fail("order|transitive", fmt.Sprintf("less(%s,%s) and less(%s,%s) but not less(%s,%s)", a.Name, b.Name, b.Name, d.Name, a.Name, d.Name), map[string]any{"a": a.Name, "b": b.Name, "c": d.Name})
								}
								// transitivity of incomparability
								incAB := !ab && !ba
								incBD := !bd && !less(d, b)
								if incAB && incBD && (ad || less(d, a)) {
									c.Fail("order|incomparability-transitive", fmt.Sprintf("%s~%s and %s~%s but %s and %s are ordered", a.Name, b.Name, b.Name, d.Name, a.Name, d.Name), map[string]any{"a": a.Name, "b": b.Name, "c": d.Name})
								}
							}
						}
					})
					c.Eval(n * n * 4)
					if idx%8 == 0 {
						c.Sample(map[string]any{"a": a.Name, "against": "all pairs (b,c) of the pool"})
					}
				}},
				{Name: "sorts", N: tierN(tier, 2000, 50000), Run: func(c *Ctx, idx int) {
					m := 2 + c.R.Intn(n-2)
					perm := c.R.Perm(n)[:m]
					items := make([]tsItem, m)
					for i, p := range perm {
						items[i] = pool[p]
					}
					keys := map[string]bool{}
					for _, it := range items {
						keys[it.Key.UTC().String()+fmt.Sprint(it.Nil)] = true
					}
					c.Distinct(fmt.Sprint(perm), len(keys) > 1)
					got := append([]tsItem{}, items...)
					if c.Guard("sort.SliceStable(ItemOrderTimestamp)", func() {
						sort.SliceStable(got, func(i, j int) bool { return vocab.ItemOrderTimestamp(got[i].It, got[j].It) })
					}) {
						return
					}
					c.Eval(1)
					c.Count("sorts", 1)
					want := append([]tsItem{}, items...)
					sort.SliceStable(want, func(i, j int) bool { return refLess(want[i], want[j]) })
					for i := range want {
						// ties are a multiset: positions must agree on the key class
						if want[i].Nil != got[i].Nil || (!want[i].Nil && !want[i].Key.Equal(got[i].Key)) {
							names := func(l []tsItem) []string {
								s := make([]string, len(l))
								for k := range l {
									s[k] = l[k].Name
								}
								return s
							}
							c.Fail("order|sort|not-newest-first", fmt.Sprintf("sorting %d items: position %d holds %s, an independent newest-first sort puts %s there", m, i, got[i].Name, want[i].Name),
								map[string]any{"input": names(items), "got": names(got), "want": names(want)})
							break
						}
					}
				}},
			}
		},
		Floors: func(tier string) map[string]int64 {
			return map[string]int64{"triples": int64(n * n * n), "pairs": int64(n * n), "sorts": 1500}
		},
		Assumptions: []string{"links and bare IRIs are outside (they carry no instants)"},
	})
}

func nilOrObj(t tsItem) string {
	if t.Nil {
		return "nil"
	}
	return "object"
}
