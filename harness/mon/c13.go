package mon

import (
	"fmt"
	"reflect"
	"strings"
	"time"

	vocab "github.com/go-ap/activitypub"
)

// C13: collections are insertion-ordered sets under Append/Contains/Remove.

type colKind struct {
	Name   string
	New    func(prefill vocab.ItemCollection) vocab.CollectionInterface
	Remove bool // removal offered (through the item-list view)
}

var colKinds = []colKind{
	{"ItemCollection", func(p vocab.ItemCollection) vocab.CollectionInterface { c := p; return &c }, true},
	{"Collection", func(p vocab.ItemCollection) vocab.CollectionInterface {
		return &vocab.Collection{ID: "https://example.com/c", Type: vocab.CollectionType, Items: p}
	}, true},
	{"OrderedCollection", func(p vocab.ItemCollection) vocab.CollectionInterface {
		return &vocab.OrderedCollection{ID: "https://example.com/c", Type: vocab.OrderedCollectionType, OrderedItems: p}
	}, true},
	{"CollectionPage", func(p vocab.ItemCollection) vocab.CollectionInterface {
		return &vocab.CollectionPage{ID: "https://example.com/c?page=1", Type: vocab.CollectionPageType, Items: p}
	}, true},
	{"OrderedCollectionPage", func(p vocab.ItemCollection) vocab.CollectionInterface {
		return &vocab.OrderedCollectionPage{ID: "https://example.com/c?page=1", Type: vocab.OrderedCollectionPageType, OrderedItems: p}
	}, true},
	{"IRIs", func(p vocab.ItemCollection) vocab.CollectionInterface {
		c := vocab.IRIs{}
		for _, it := range p {
			c = append(c, it.GetLink())
		}
		return &c
	}, false}, // its item-list view is a documented copy: the library offers no removal on it
}

// pool: pairwise distinct ids, mixed shapes (IRI, object, actor, activity; value and pointer forms)
// richActor / richActivity: members that set the properties only their kind declares (an equality that mixes two of them up
// makes such a member unequal to itself, and the collection stops recognising it)
func richActor(id vocab.IRI, n string) *vocab.Actor {
	return &vocab.Actor{ID: id, Type: vocab.PersonType, PreferredUsername: vocab.NaturalLanguageValues{{Ref: vocab.NilLangRef, Value: vocab.Content(n)}},
		Inbox: id + "/inbox", Outbox: id + "/outbox", Following: id + "/following", Followers: id + "/followers", Liked: id + "/liked",
		Streams: vocab.ItemCollection{id + "/streams/1"}, Endpoints: &vocab.Endpoints{SharedInbox: vocab.IRI("https://example.com/shared-inbox"), OauthTokenEndpoint: id + "/token"},
		PublicKey: vocab.PublicKey{ID: id + "#main-key", Owner: id, PublicKeyPem: "pem"}, Published: time.Date(2010, 1, 1, 0, 0, 0, 0, time.UTC)}
}

func richActivity(id vocab.IRI) *vocab.Activity {
	return &vocab.Activity{ID: id, Type: vocab.LikeType, Object: vocab.IRI("https://example.com/items/1"), Actor: vocab.IRI("https://example.com/items/2"), Target: id + "/target", Result: id + "/result",
		Origin: id + "/origin", Instrument: id + "/instrument", Summary: vocab.NaturalLanguageValues{{Ref: "en", Value: vocab.Content("liked")}, {Ref: "fr", Value: vocab.Content("aimé")}},
		To: vocab.ItemCollection{vocab.IRI("https://example.com/items/2/followers")}, Updated: time.Date(2020, 1, 1, 0, 0, 0, 0, time.UTC)}
}

func newPool() []vocab.Item {
	return []vocab.Item{
		vocab.IRI("https://example.com/items/0"),
		// instants grow with the pool index: insertion order is oldest first, so a collection that re-orders by time shows at once
		&vocab.Object{ID: "https://example.com/items/1", Type: vocab.NoteType, Name: vocab.NaturalLanguageValues{{Ref: vocab.NilLangRef, Value: vocab.Content("one")}}, Published: time.Date(2001, 1, 1, 0, 0, 0, 0, time.UTC)},
		richActor("https://example.com/items/2", "two"),
		richActivity("https://example.com/items/3"),
		vocab.Object{ID: "https://example.com/items/4", Type: vocab.ArticleType, Published: time.Date(2005, 6, 1, 0, 0, 0, 0, time.UTC), Updated: time.Date(2030, 1, 1, 0, 0, 0, 0, time.UTC)},
		vocab.IRI("https://EXAMPLE.com/items/5/"),
		// a second activity that shares actor, object and target with the first and differs in id and type (an Add and its Remove)
		func() vocab.Item {
			a := richActivity("https://example.com/items/3")
			a.ID, a.Type = "https://example.com/items/6", vocab.DislikeType
			return a
		}(),
	}
}

const poolN = 7

type colOp struct {
	Op  byte // A C R
	Arg int
}

func (o colOp) String() string { return fmt.Sprintf("%c%d", o.Op, o.Arg) }

func opsString(ops []colOp) string {
	sb := strings.Builder{}
	for _, o := range ops {
		sb.WriteString(o.String())
	}
	return sb.String()
}

// bigPool: 40 items in rotating shapes, for histories that grow the collections past the sizes at which an
// implementation might switch to an index or another algorithm
func bigPool(n int) []vocab.Item {
	out := make([]vocab.Item, 0, n)
	for i := 0; i < n; i++ {
		id := vocab.IRI(fmt.Sprintf("https://example.com/big/%d", i))
		switch i % 5 {
		case 0:
			out = append(out, id)
		case 1:
			out = append(out, &vocab.Object{ID: id, Type: vocab.NoteType, Published: time.Date(2000, 1, 1+i, 0, 0, 0, 0, time.UTC)})
		case 2:
			a := richActor(id, fmt.Sprint("actor ", i))
			a.Published, a.Updated = time.Time{}, time.Date(2000, 1, 1+i, 12, 0, 0, 0, time.UTC)
			out = append(out, a)
		case 3:
			out = append(out, &vocab.Activity{ID: id, Type: vocab.LikeType, Object: vocab.IRI("https://example.com/big/liked")})
		default:
			out = append(out, vocab.Object{ID: id, Type: vocab.ArticleType})
		}
	}
	return out
}

// runBigHistory: same oracle as runHistory over the big pool (Contains is probed for a sample of the pool after every step).
func runBigHistory(c *Ctx, ck colKind, ops []colOp, poolSize int) {
	pool := bigPool(poolSize)
	col := ck.New(nil)
	var model []int
	label := fmt.Sprintf("%s/big%d/%d ops", ck.Name, poolSize, len(ops))
	for i, o := range ops {
		c.Pending(label)
		bad := false
		switch o.Op {
		case 'A':
			if c.Guard(ck.Name+".Append", func() { _ = col.Append(pool[o.Arg]) }) {
				return
			}
			in := false
			for _, m := range model {
				if m == o.Arg {
					in = true
				}
			}
			if !in {
				model = append(model, o.Arg)
			}
		case 'R':
			if !ck.Remove {
				continue
			}
			if c.Guard("OnItemCollection.Remove", func() {
				_ = vocab.OnItemCollection(col, func(ic *vocab.ItemCollection) error { ic.Remove(pool[o.Arg]); return nil })
			}) {
				return
			}
			for k, m := range model {
				if m == o.Arg {
					model = append(append([]int{}, model[:k]...), model[k+1:]...)
					break
				}
			}
		}
		c.Eval(1)
		c.Count("steps", 1)
		var got vocab.ItemCollection
		var cnt uint
		if c.Guard(ck.Name+".Collection", func() { got = col.Collection(); cnt = col.Count() }) {
			return
		}
		if len(got) != len(model) || int(cnt) != len(model) {
			bad = true
		} else {
			for k := range got {
				if got[k] == nil || !equivIRI(got[k].GetLink(), pool[model[k]].GetLink()) {
					bad = true
				}
			}
		}
		for probe := 0; probe < 4 && !bad; probe++ {
			q := (o.Arg + probe*11) % len(pool)
			in := false
			for _, m := range model {
				if m == q {
					in = true
				}
			}
			var has bool
			if c.Guard(ck.Name+".Contains", func() { has = col.Contains(pool[q]) }) {
				return
			}
			if has != in {
				c.Fail(fmt.Sprintf("set|%s|%c|contains-differs", ck.Name, o.Op), fmt.Sprintf("%s step %d with %d members: Contains(pool[%d])=%v, model says %v", label, i, len(model), q, has, in), map[string]any{"history": opsString(ops[:i+1])})
				return
			}
		}
		if bad {
			c.Fail(fmt.Sprintf("set|%s|%c|members-differ", ck.Name, o.Op), fmt.Sprintf("%s step %d: %d members (Count %d), model has %d or another order", label, i, len(got), cnt, len(model)), map[string]any{"history": opsString(ops[:i+1])})
			return
		}
	}
	c.Count("histories", 1)
	c.Count("big-histories", 1)
}

// runHistory drives one collection and the reference model with the same operations and compares after each step.
func runHistory(c *Ctx, ck colKind, start string, ops []colOp) {
	runHistoryOn(c, ck, start, ops, newPool(), "")
}

// nearPool: seven items whose ids are distinct but close: the same path with no query, with one parameter, with that parameter
// and one more, with a repeated parameter, on another port; the members carry links that have ids of their own in their lists
func nearPool() []vocab.Item {
	const base = "https://example.com/users/jdoe/outbox"
	mention := func(n string) vocab.Item {
		return &vocab.Link{ID: vocab.IRI("https://example.com/mentions/" + n), Type: vocab.MentionType, Href: vocab.IRI("https://example.com/users/" + n),
			Name: vocab.NaturalLanguageValues{{Ref: vocab.NilLangRef, Value: vocab.Content("@" + n)}}}
	}
	note := &vocab.Object{ID: base + "?maxItems=2&after=3", Type: vocab.NoteType, Published: time.Date(2001, 1, 1, 0, 0, 0, 0, time.UTC),
		Tag: vocab.ItemCollection{mention("ana"), vocab.IRI("https://example.com/tags/x")}}
	actor := richActor(base, "two")
	actor.Attachment = vocab.ItemCollection{&vocab.Link{ID: "https://example.com/links/1", Type: vocab.LinkType, Href: "https://example.com/files/1.png", MediaType: "image/png"}}
	act := richActivity(base + "?page=1")
	wrap := &vocab.Activity{ID: base + "?page=2", Type: vocab.CreateType, Actor: vocab.IRI("https://example.com/users/jdoe"),
		Object: &vocab.Object{ID: "https://example.com/notes/wrapped", Type: vocab.NoteType, Tag: vocab.ItemCollection{mention("bob")}}, Published: time.Date(2031, 1, 1, 0, 0, 0, 0, time.UTC)}
	return []vocab.Item{
		vocab.IRI(base + "?maxItems=2"),
		note,
		actor,
		act,
		vocab.Object{ID: "https://example.com:8443/users/jdoe/outbox", Type: vocab.ArticleType, Published: time.Date(2005, 6, 1, 0, 0, 0, 0, time.UTC)},
		vocab.IRI(base + "?page=1&page=2"),
		wrap,
	}
}

func runHistoryOn(c *Ctx, ck colKind, start string, ops []colOp, pool []vocab.Item, poolName string) {
	var model []int
	var prefill vocab.ItemCollection
	var earlier vocab.ItemCollection // an earlier snapshot sharing the backing array
	switch start {
	case "prefilled":
		prefill = vocab.ItemCollection{pool[1], pool[0]}
		model = []int{1, 0}
	case "prefilled+total":
		// what a decoded collection looks like: the members and a totalItems that agrees with them
		prefill = vocab.ItemCollection{pool[1], pool[0]}
		model = []int{1, 0}
	case "spare":
		backing := make(vocab.ItemCollection, 2, 6)
		backing[0], backing[1] = pool[2], pool[4]
		prefill = backing
		earlier = backing[:2:2]
		_ = earlier
		model = []int{2, 4}
	}
	col := ck.New(prefill)
	if start == "prefilled+total" {
		if ev := reflect.ValueOf(col).Elem(); ev.Kind() == reflect.Struct {
			if f := ev.FieldByName("TotalItems"); f.IsValid() {
				f.SetUint(uint64(len(prefill)))
			}
		}
	}
	label := fmt.Sprintf("%s/%s/%s", ck.Name, start, opsString(ops))
	if poolName != "" {
		label += " over the " + poolName + " pool"
	}
	fail := func(step int, what, effect string, detail map[string]any) {
		op := "init"
		if step >= 0 {
			op = string(ops[step].Op)
		}
		detail["history"] = label
		detail["step"] = step
		c.Fail(fmt.Sprintf("set|%s|%s|%s", ck.Name, op, effect), fmt.Sprintf("%s after step %d (%s): %s", label, step, op, what), detail)
	}
	check := func(step int) bool {
		var got vocab.ItemCollection
		var cnt uint
		if c.Guard(ck.Name+".Collection", func() { got = col.Collection(); cnt = col.Count() }) {
			return false
		}
		c.Eval(2)
		ids := make([]string, len(got))
		for i, it := range got {
			if it == nil {
				ids[i] = "<nil>"
			} else {
				ids[i] = string(it.GetLink())
			}
		}
		want := make([]string, len(model))
		for i, m := range model {
			want[i] = string(pool[m].GetLink())
		}
		if strings.Join(ids, " ") != strings.Join(want, " ") {
			fail(step, fmt.Sprintf("members %v, model %v", ids, want), "members-differ", map[string]any{"got": ids, "want": want})
			return false
		}
		if int(cnt) != len(model) {
			fail(step, fmt.Sprintf("Count()=%d, model has %d members", cnt, len(model)), "count-differs", map[string]any{"count": cnt, "want": len(model)})
			return false
		}
		for q := 0; q < poolN; q++ {
			in := false
			for _, m := range model {
				if m == q {
					in = true
				}
			}
			var has bool
			if c.Guard(ck.Name+".Contains", func() { has = col.Contains(pool[q]) }) {
				return false
			}
			c.Eval(1)
			if has != in {
				fail(step, fmt.Sprintf("Contains(pool[%d])=%v, model says %v", q, has, in), "contains-differs", map[string]any{"arg": q, "got": has, "want": in})
				return false
			}
		}
		return true
	}
	if !check(-1) {
		return
	}
	for i, o := range ops {
		c.Pending(label + " step " + fmt.Sprint(i))
		switch o.Op {
		case 'A':
			var err error
			if c.Guard(ck.Name+".Append", func() { err = col.Append(pool[o.Arg]) }) {
				return
			}
			if err != nil {
				fail(i, "Append returned "+err.Error(), "append-error", map[string]any{})
				return
			}
			in := false
			for _, m := range model {
				if m == o.Arg {
					in = true
				}
			}
			if !in {
				model = append(model, o.Arg)
			}
		case 'M':
			// one variadic call that names a new item twice, with another one in between
			args := []int{o.Arg, (o.Arg + 1) % poolN, o.Arg}
			var err error
			if c.Guard(ck.Name+".Append(many)", func() { err = col.Append(pool[args[0]], pool[args[1]], pool[args[2]]) }) {
				return
			}
			if err != nil {
				fail(i, "Append returned "+err.Error(), "append-error", map[string]any{})
				return
			}
			for _, a := range args {
				in := false
				for _, m := range model {
					if m == a {
						in = true
					}
				}
				if !in {
					model = append(model, a)
				}
			}
		case 'C':
			// Contains is checked for the whole pool after every step
		case 'R':
			if !ck.Remove {
				continue
			}
			var err error
			if c.Guard("OnItemCollection.Remove", func() {
				err = vocab.OnItemCollection(col, func(ic *vocab.ItemCollection) error { ic.Remove(pool[o.Arg]); return nil })
			}) {
				return
			}
			if err != nil {
				fail(i, "OnItemCollection returned "+err.Error(), "remove-error", map[string]any{})
				return
			}
			for k, m := range model {
				if m == o.Arg {
					model = append(append([]int{}, model[:k]...), model[k+1:]...)
					break
				}
			}
		}
		c.Eval(1)
		c.Count("steps", 1)
		c.Count("op:"+string(o.Op), 1)
		if !check(i) {
			return
		}
	}
	c.Count("histories", 1)
}

var starts = []string{"empty", "prefilled", "spare", "prefilled+total"}

func init() {
	// exhaustive histories: all sequences of length <= L over {A,R} x pool plus a Contains probe (Contains is checked after every step anyway)
	const L = 4
	alphabet := []colOp{}
	for a := 0; a < poolN; a++ {
		alphabet = append(alphabet, colOp{'A', a}, colOp{'R', a})
	}
	total := 0
	pw := 1
	for l := 1; l <= L; l++ {
		pw *= len(alphabet)
		total += pw
	}
	decode := func(idx int) []colOp {
		l := 1
		pw := len(alphabet)
		for idx >= pw {
			idx -= pw
			pw *= len(alphabet)
			l++
		}
		ops := make([]colOp, l)
		for i := 0; i < l; i++ {
			ops[i] = alphabet[idx%len(alphabet)]
			idx /= len(alphabet)
		}
		return ops
	}
	alphabetM := append([]colOp{}, alphabet...)
	for a := 0; a < poolN; a++ {
		alphabetM = append(alphabetM, colOp{'M', a})
	}
	nM := len(alphabetM)
	decodeM := func(idx int) []colOp {
		l := 1
		pw := nM
		for idx >= pw {
			idx -= pw
			pw *= nM
			l++
		}
		ops := make([]colOp, l)
		for i := 0; i < l; i++ {
			ops[i] = alphabetM[idx%nM]
			idx /= nM
		}
		return ops
	}
	growSizes := []int{65, 70, 129, 150, 300}
	shrinkOrders := []string{"front", "back", "middle-out", "every-third-then-rest"}
	Register(&Prop{
		ID:   "C13",
		Rule: fmt.Sprintf("model: a slice of pool indices with set semantics; pool of %d items with pairwise distinct ids (IRI, object, actor, activity, value and pointer forms); exhaustive layer: all %d histories of length <= %d over {Append, Remove} x pool, each run on a rotating collection kind x start state (empty, pre-filled, slice with spare capacity), and all histories of length <= 3 that also use a variadic Append naming a new item twice, on every kind x start; after EVERY step Collection() (sequence by id), Count() and Contains(p) for every pool member are compared with the model; random layer: histories of length 6-40 on every kind; big-pool layer: histories of 60-150 operations over a 40-item pool (collections grow to 40 members); near-ids layers: all histories of length <= 3 (rotating kind and start) and random ones over a second pool whose ids are distinct but close (the same path without a query, with one parameter, with one more, with a repeated parameter, on another port) and whose members hold links with ids of their own in their lists; grow-shrink layer: every kind grown to 65/70/129/150/300 members and removed down to nothing in four orders, then grown again; distinct = (kind, start, history); non-trivial = history with at least one effective Remove or a repeated Append", poolN, total, L),
		Layers: func(tier string) []Layer {
			return []Layer{
				{Name: "histories<=4", N: total, Exhaustive: true, Run: func(c *Ctx, idx int) {
					ops := decode(idx)
					ck := colKinds[idx%len(colKinds)]
					st := starts[(idx/len(colKinds))%len(starts)]
					nontriv := false
					seen := map[int]bool{}
					for _, o := range ops {
						if o.Op == 'R' || seen[o.Arg] {
							nontriv = true
						}
						seen[o.Arg] = true
					}
					c.Distinct(ck.Name+"/"+st+"/"+opsString(ops), nontriv)
					if idx%5000 == 0 {
						c.Sample(map[string]any{"kind": ck.Name, "start": st, "history": opsString(ops)})
					}
					runHistory(c, ck, st, ops)
				}},
				{Name: "all-kinds<=3", N: (nM + nM*nM + nM*nM*nM) * len(colKinds) * len(starts), Exhaustive: true, Run: func(c *Ctx, idx int) {
					ck := colKinds[idx%len(colKinds)]
					st := starts[(idx/len(colKinds))%len(starts)]
					ops := decodeM(idx / (len(colKinds) * len(starts)))
					c.Distinct(ck.Name+"/"+st+"/"+opsString(ops), true)
					runHistory(c, ck, st, ops)
				}},
				{Name: "near-ids<=3", N: nM + nM*nM + nM*nM*nM, Exhaustive: true, Run: func(c *Ctx, idx int) {
					ck := colKinds[idx%len(colKinds)]
					st := starts[(idx/len(colKinds))%len(starts)]
					ops := decodeM(idx)
					c.Distinct("near/"+ck.Name+"/"+st+"/"+opsString(ops), true)
					c.Count("near-id-histories", 1)
					runHistoryOn(c, ck, st, ops, nearPool(), "near-ids")
				}},
				{Name: "near-ids-random", N: tierN(tier, 4000, 100000), Run: func(c *Ctx, idx int) {
					ck := colKinds[c.R.Intn(len(colKinds))]
					st := starts[c.R.Intn(len(starts))]
					n := 4 + c.R.Intn(20)
					ops := make([]colOp, n)
					for i := range ops {
						ops[i] = colOp{"AARCM"[c.R.Intn(5)], c.R.Intn(poolN)}
					}
					c.Distinct("near/"+ck.Name+"/"+st+"/"+opsString(ops), true)
					c.Count("near-id-histories", 1)
					runHistoryOn(c, ck, st, ops, nearPool(), "near-ids")
				}},
				{Name: "grow-shrink", N: len(colKinds) * len(growSizes) * len(shrinkOrders), Exhaustive: true, Run: func(c *Ctx, idx int) {
					// grow past the sizes at which slices re-allocate (65, 129, ...) and shrink back to nothing, compared after every step
					ck := colKinds[idx%len(colKinds)]
					n := growSizes[(idx/len(colKinds))%len(growSizes)]
					order := shrinkOrders[idx/(len(colKinds)*len(growSizes))]
					var ops []colOp
					for i := 0; i < n; i++ {
						ops = append(ops, colOp{'A', i})
					}
					var rm []int
					switch order {
					case "front":
						for i := 0; i < n; i++ {
							rm = append(rm, i)
						}
					case "back":
						for i := n - 1; i >= 0; i-- {
							rm = append(rm, i)
						}
					case "middle-out":
						for d := 0; d <= n/2; d++ {
							if n/2+d < n {
								rm = append(rm, n/2+d)
							}
							if d > 0 && n/2-d >= 0 {
								rm = append(rm, n/2-d)
							}
						}
					default:
						for i := 0; i < n; i += 3 {
							rm = append(rm, i)
						}
						for i := 0; i < n; i++ {
							if i%3 != 0 {
								rm = append(rm, i)
							}
						}
					}
					for _, r := range rm {
						ops = append(ops, colOp{'R', r})
					}
					// and grow again from the shrunk state
					for i := 0; i < 10; i++ {
						ops = append(ops, colOp{'A', (i * 7) % n})
					}
					c.Distinct(fmt.Sprintf("%s/grow-shrink/%d/%s", ck.Name, n, order), true)
					c.Count("grow-shrink", 1)
					runBigHistory(c, ck, ops, n)
				}},
				{Name: "big-pool", N: tierN(tier, 1500, 30000), Run: func(c *Ctx, idx int) {
					ck := colKinds[idx%len(colKinds)]
					n := 60 + c.R.Intn(90)
					ops := make([]colOp, n)
					for i := range ops {
						ops[i] = colOp{"AAAR"[c.R.Intn(4)], c.R.Intn(40)}
					}
					c.Distinct(ck.Name+"/big/"+opsString(ops), true)
					runBigHistory(c, ck, ops, 40)
				}},
				{Name: "random", N: tierN(tier, 20000, 500000), Run: func(c *Ctx, idx int) {
					ck := colKinds[c.R.Intn(len(colKinds))]
					st := starts[c.R.Intn(len(starts))]
					n := 6 + c.R.Intn(35)
					ops := make([]colOp, n)
					for i := range ops {
						ops[i] = colOp{"AARCM"[c.R.Intn(5)], c.R.Intn(poolN)}
					}
					c.Distinct(ck.Name+"/"+st+"/"+opsString(ops), true)
					if idx%4000 == 0 {
						c.Sample(map[string]any{"kind": ck.Name, "start": st, "history": opsString(ops)})
					}
					runHistory(c, ck, st, ops)
				}},
			}
		},
		Floors: func(tier string) map[string]int64 {
			return map[string]int64{"histories": 50000, "op:A": 50000, "op:R": 50000, "near-id-histories": 10000}
		},
		Assumptions: []string{
			"links are outside the pool (the quantifier lists IRI, object, actor, activity)",
			"IRIs: Append/Contains/Count only - its item-list view is a copy, the library offers no removal on it",
		},
	})
}
