package mon

import (
	"bytes"
	"fmt"
	"sort"
	"strings"

	vocab "github.com/go-ap/activitypub"
)

// C19: language-value containers behave as ordered maps from language tag to text.

var nlvTags = []vocab.LangRef{vocab.NilLangRef, "en", "fr"}
var nlvTexts = []string{"a", "b", "c", "", ""} // index 3: empty text, index 4: nil text

func nlvContent(i int) vocab.Content {
	if i == 4 {
		return nil
	}
	return vocab.Content(nlvTexts[i])
}

type nlvOp struct {
	Op  byte // S(et) A(ppend) D(add) G(et)
	Tag int
	Txt int
}

func (o nlvOp) String() string { return fmt.Sprintf("%c%d%d", o.Op, o.Tag, o.Txt) }

type lv struct {
	tag  vocab.LangRef
	text string
}

func nlvOpsString(ops []nlvOp) string {
	sb := strings.Builder{}
	for _, o := range ops {
		sb.WriteString(o.String())
	}
	return sb.String()
}

func modelGet(m []lv, tag vocab.LangRef) (string, bool) {
	for _, e := range m {
		if e.tag == tag {
			return e.text, true
		}
	}
	return "", false
}

func runNLVHistory(c *Ctx, ops []nlvOp) {
	var n vocab.NaturalLanguageValues
	var model []lv
	label := nlvOpsString(ops)
	fail := func(step int, op byte, clause, what string) {
		c.Fail(fmt.Sprintf("nlv|%c|%s", op, clause), fmt.Sprintf("history %s step %d: %s", label, step, what), map[string]any{"history": label, "step": step, "list": fmt.Sprintf("%q", n)})
	}
	observe := func(step int, op byte) bool {
		// Get(tag) = text of the first entry with that tag, nil if none; Count; First
		for _, t := range nlvTags {
			var got vocab.Content
			if c.Guard("NaturalLanguageValues.Get", func() { got = n.Get(t) }) {
				return false
			}
			want, ok := modelGet(model, t)
			if !ok && got != nil {
				fail(step, op, "get-absent", fmt.Sprintf("Get(%q) = %q but no entry has that tag", t, got))
				return false
			}
			if ok && !bytes.Equal(got, []byte(want)) {
				fail(step, op, "get-first", fmt.Sprintf("Get(%q) = %q, first entry with that tag holds %q", t, got, want))
				return false
			}
		}
		var cnt uint
		var first vocab.LangRefValue
		if c.Guard("NaturalLanguageValues.Count", func() { cnt = n.Count(); first = n.First() }) {
			return false
		}
		c.Eval(len(nlvTags) + 2)
		if int(cnt) != len(model) {
			fail(step, op, "count", fmt.Sprintf("Count() = %d, %d entries", cnt, len(model)))
			return false
		}
		if len(model) > 0 && (first.Ref != model[0].tag || string(first.Value) != model[0].text) {
			fail(step, op, "first", fmt.Sprintf("First() = %v, first entry is (%q,%q)", first, model[0].tag, model[0].text))
			return false
		}
		// entries as a whole
		if len(n) != len(model) {
			fail(step, op, "entries", "number of entries differs from the model")
			return false
		}
		for i := range model {
			if n[i].Ref != model[i].tag || string(n[i].Value) != model[i].text {
				fail(step, op, "entries", fmt.Sprintf("entry %d is (%q,%q), model (%q,%q)", i, n[i].Ref, n[i].Value, model[i].tag, model[i].text))
				return false
			}
		}
		return true
	}
	for i, o := range ops {
		tag, txt := nlvTags[o.Tag], nlvTexts[o.Txt]
		c.Pending("nlv " + label)
		switch o.Op {
		case 'S':
			before := append([]lv{}, model...)
			if c.Guard("NaturalLanguageValues.Set", func() { _ = n.Set(tag, nlvContent(o.Txt)) }) {
				return
			}
			// statement: Get(tag)=v afterwards, every other tag's text and the order unchanged, grows by at most one
			if got := n.Get(tag); string(got) != txt {
				fail(i, 'S', "set-get", fmt.Sprintf("after Set(%q,%q) Get returns %q", tag, txt, got))
				return
			}
			if len(n) > len(before)+1 || len(n) < len(before) {
				fail(i, 'S', "set-grows", fmt.Sprintf("Set changed the length from %d to %d", len(before), len(n)))
				return
			}
			// the model: the library overwrites every entry carrying the tag; appends if none
			found := false
			for k := range model {
				if model[k].tag == tag {
					model[k].text = txt
					found = true
				}
			}
			if !found {
				model = append(model, lv{tag, txt})
			}
			// other tags and order: compare position by position for entries with another tag
			if len(n) == len(model) {
				for k := range model {
					if model[k].tag != tag && (n[k].Ref != model[k].tag || string(n[k].Value) != model[k].text) {
						fail(i, 'S', "set-others", fmt.Sprintf("Set(%q) changed entry %d of another tag", tag, k))
						return
					}
				}
			}
		case 'A':
			if c.Guard("NaturalLanguageValues.Append", func() { _ = n.Append(tag, nlvContent(o.Txt)) }) {
				return
			}
			model = append(model, lv{tag, txt})
		case 'D':
			if c.Guard("NaturalLanguageValues.Add", func() { n.Add(vocab.LangRefValue{Ref: tag, Value: nlvContent(o.Txt)}) }) {
				return
			}
			model = append(model, lv{tag, txt})
		case 'X':
			// Set(tag, Get(other tag)): the text handed in shares its bytes with another entry
			other := nlvTags[(o.Tag+1)%len(nlvTags)]
			src := n.Get(other)
			if src == nil {
				break
			}
			want := string(src)
			if c.Guard("NaturalLanguageValues.Set", func() { _ = n.Set(tag, src) }) {
				return
			}
			found := false
			for k := range model {
				if model[k].tag == tag {
					model[k].text = want
					found = true
				}
			}
			if !found {
				model = append(model, lv{tag, want})
			}
		case 'E':
			// comparing is not a change: against the same entries in reverse order, and against a list that differs in one text
			rev := make(vocab.NaturalLanguageValues, 0, len(n))
			for k := len(n) - 1; k >= 0; k-- {
				rev = append(rev, vocab.LangRefValue{Ref: n[k].Ref, Value: append(vocab.Content{}, n[k].Value...)})
			}
			other := append(vocab.NaturalLanguageValues{}, rev...)
			if len(other) > 0 {
				other[0] = vocab.LangRefValue{Ref: other[0].Ref, Value: vocab.Content(string(other[0].Value) + "!")}
			}
			revWant := append(vocab.NaturalLanguageValues{}, rev...)
			if c.Guard("NaturalLanguageValues.Equals", func() { _, _, _ = n.Equals(rev), rev.Equals(n), n.Equals(other) }) {
				return
			}
			for k := range revWant {
				if rev[k].Ref != revWant[k].Ref || !bytes.Equal(rev[k].Value, revWant[k].Value) {
					fail(i, o.Op, "equals-reordered-argument", fmt.Sprintf("after Equals the list compared with is %q, it was %q", rev, revWant))
					return
				}
			}
		case 'G':
		}
		c.Eval(1)
		c.Count("steps", 1)
		c.Count("op:"+string(o.Op), 1)
		if !observe(i, o.Op) {
			return
		}
	}
	c.Count("histories", 1)
}

// duplicate-free lists over 3 tags x 3 texts, length <= 3, in every order
func dupFreeLists() [][]lv {
	var out [][]lv
	var rec func(cur []lv, used int)
	rec = func(cur []lv, used int) {
		out = append(out, append([]lv{}, cur...))
		if len(cur) == 3 {
			return
		}
		for t := range nlvTags {
			if used&(1<<t) != 0 {
				continue
			}
			for _, x := range []string{"a", "b", "", nilText} {
				rec(append(cur, lv{nlvTags[t], x}), used|1<<t)
			}
		}
	}
	rec(nil, 0)
	return out
}

// nilText marks an entry whose text is nil (what Set(tag, nil) leaves) rather than empty-but-non-nil: both are "no text"
const nilText = "\x00nil"

func toNLV(l []lv) vocab.NaturalLanguageValues {
	n := vocab.NaturalLanguageValues{}
	for _, e := range l {
		if e.text == nilText {
			n = append(n, vocab.LangRefValue{Ref: e.tag})
			continue
		}
		n = append(n, vocab.LangRefValue{Ref: e.tag, Value: vocab.Content(e.text)})
	}
	return n
}

func sameEntries(n vocab.NaturalLanguageValues, l []lv) bool {
	if len(n) != len(l) {
		return false
	}
	for i := range l {
		want := l[i].text
		if want == nilText {
			want = ""
		}
		if n[i].Ref != l[i].tag || string(n[i].Value) != want {
			return false
		}
	}
	return true
}

func pairSet(l []lv) string {
	s := make([]string, len(l))
	for i, e := range l {
		t := e.text
		if t == nilText {
			t = ""
		}
		s[i] = string(e.tag) + "=" + t
	}
	sort.Strings(s)
	return strings.Join(s, ",")
}

func init() {
	var alphabet []nlvOp
	for _, op := range []byte{'S', 'A', 'D', 'X'} {
		for t := range nlvTags {
			for x := 0; x < 2; x++ {
				alphabet = append(alphabet, nlvOp{op, t, x})
			}
		}
	}
	alphabet = append(alphabet, nlvOp{'E', 0, 0})
	// a second alphabet that also hands over empty and nil texts (an entry that is present but has no text)
	var alphabetE []nlvOp
	for _, op := range []byte{'S', 'A', 'D', 'X'} {
		for t := range nlvTags {
			for _, x := range []int{0, 1, 3, 4} {
				alphabetE = append(alphabetE, nlvOp{op, t, x})
			}
		}
	}
	nE := len(alphabetE)
	totalE := nE + nE*nE + nE*nE*nE
	decodeE := func(idx int) []nlvOp {
		l, pw := 1, nE
		for idx >= pw {
			idx -= pw
			pw *= nE
			l++
		}
		ops := make([]nlvOp, l)
		for i := range ops {
			ops[i] = alphabetE[idx%nE]
			idx /= nE
		}
		return ops
	}
	const L = 4
	total, pw := 0, 1
	for l := 1; l <= L; l++ {
		pw *= len(alphabet)
		total += pw
	}
	decode := func(idx int) []nlvOp {
		l, pw := 1, len(alphabet)
		for idx >= pw {
			idx -= pw
			pw *= len(alphabet)
			l++
		}
		ops := make([]nlvOp, l)
		for i := range ops {
			ops[i] = alphabet[idx%len(alphabet)]
			idx /= len(alphabet)
		}
		return ops
	}
	lists := dupFreeLists()
	Register(&Prop{
		ID: "C19",
		Rule: fmt.Sprintf("model: ordered list of (tag,text), Get = first match; exhaustive layer: all %d histories of length <= %d over {Set, Append, Add, Set-with-a-text-obtained-from-Get (shared bytes)} x 3 tags (incl. the nil tag) x 2 texts plus a comparison step (Equals against the same entries reversed and against a list differing in one text: neither list may change), and all histories of length <= 3 over the same operations x 3 tags x {2 texts, the empty text, the nil text}, with Get for every tag, Count, First and the entries compared after every step, and the statement's Set clauses (Get(tag)=v, other tags and order unchanged, grows by <= 1) checked on each Set; equality layer: all %d x %d ordered pairs of duplicate-free lists over 3 tags x 3 texts incl. the empty text (length <= 3, every order): a.Equals(b) <=> same set of pairs; random histories to length 30; distinct = history / list pair; non-trivial = history containing a Set on a present tag or a repeated tag, or lists of length >= 2",
			total, L, len(lists), len(lists)),
		Layers: func(tier string) []Layer {
			return []Layer{
				{Name: "histories<=4", N: total, Exhaustive: true, Run: func(c *Ctx, idx int) {
					ops := decode(idx)
					seen := map[int]bool{}
					nontriv := false
					for _, o := range ops {
						if seen[o.Tag] {
							nontriv = true
						}
						seen[o.Tag] = true
					}
					c.Distinct("h|"+nlvOpsString(ops), nontriv)
					if idx%20000 == 0 {
						c.Sample(map[string]any{"history": nlvOpsString(ops), "legend": "S=Set A=Append D=Add, then tag index, text index"})
					}
					runNLVHistory(c, ops)
				}},
				{Name: "histories<=3-empty-texts", N: totalE, Exhaustive: true, Run: func(c *Ctx, idx int) {
					ops := decodeE(idx)
					c.Distinct("hE|"+nlvOpsString(ops), true)
					c.Count("histories-with-empty-texts", 1)
					runNLVHistory(c, ops)
				}},
				{Name: "equality-pairs", N: len(lists), Exhaustive: true, Run: func(c *Ctx, idx int) {
					a := lists[idx]
					na := toNLV(a)
					ka := pairSet(a)
					c.Guard("NaturalLanguageValues.Equals", func() {
						for _, b := range lists {
							nb := toNLV(b)
							got := na.Equals(nb)
							want := ka == pairSet(b)
							c.Count("equality-comparisons", 1)
							if !sameEntries(na, a) || !sameEntries(nb, b) {
								c.Fail(fmt.Sprintf("nlv|Equals|len%d|len%d|arguments-changed", len(a), len(b)), fmt.Sprintf("after Equals the lists are %q and %q, they were built as %v and %v", na, nb, a, b), map[string]any{"a": fmt.Sprintf("%q", na), "b": fmt.Sprintf("%q", nb)})
								na = toNLV(a)
							}
							if got != want {
								law := "equal-but-different-pairs"
								if want {
									law = "same-pairs-but-unequal"
								}
								c.Fail(fmt.Sprintf("nlv|Equals|len%d|len%d|%s", len(a), len(b), law), fmt.Sprintf("%q.Equals(%q) = %v, same set of pairs: %v", na, nb, got, want), map[string]any{"a": fmt.Sprintf("%q", na), "b": fmt.Sprintf("%q", nb)})
							}
						}
					})
					c.Eval(len(lists))
					c.Distinct("eq|"+fmt.Sprint(a), len(a) >= 2)
					if idx%40 == 0 {
						c.Sample(map[string]any{"list": fmt.Sprintf("%q", na), "compared_with": len(lists)})
					}
				}},
				{Name: "equality-long", N: tierN(tier, 4000, 60000), Run: func(c *Ctx, idx int) {
					// lists of 8-20 entries with distinct tags: permutations must be equal, one changed text / tag / missing entry not
					n := 8 + c.R.Intn(13)
					var a []lv
					for i := 0; i < n; i++ {
						a = append(a, lv{vocab.LangRef(fmt.Sprintf("t%02d", i)), fmt.Sprintf("text %d", c.R.Intn(4))})
					}
					b := append([]lv{}, a...)
					c.R.Shuffle(len(b), func(i, j int) { b[i], b[j] = b[j], b[i] })
					kind := []string{"permutation", "one-text-changed", "one-tag-changed", "same-length-other-entry"}[idx%4]
					k := c.R.Intn(n)
					switch kind {
					case "one-text-changed":
						b[k].text += "!"
					case "one-tag-changed":
						b[k].tag += "x"
					case "same-length-other-entry":
						b[k] = lv{"zz", "other"}
					}
					na, nb := toNLV(a), toNLV(b)
					want := pairSet(a) == pairSet(b)
					c.Distinct(fmt.Sprintf("eqlong|%d|%s|%v", n, kind, b), true)
					c.Count("equality-comparisons", 2)
					c.Guard("NaturalLanguageValues.Equals", func() {
						for _, pr := range [][2]vocab.NaturalLanguageValues{{na, nb}, {nb, na}} {
							if got := pr[0].Equals(pr[1]); got != want {
								c.Fail("nlv|Equals|long|"+kind, fmt.Sprintf("lists of %d entries (%s): Equals = %v, same set of pairs: %v", n, kind, got, want), map[string]any{"a": fmt.Sprintf("%q", pr[0]), "b": fmt.Sprintf("%q", pr[1])})
							}
						}
						if !sameEntries(na, a) || !sameEntries(nb, b) {
							c.Fail("nlv|Equals|long|arguments-changed", fmt.Sprintf("lists of %d entries (%s): Equals changed the order or content of a list it compared", n, kind), map[string]any{"a": fmt.Sprintf("%q", na), "b": fmt.Sprintf("%q", nb)})
						}
					})
					c.Eval(2)
				}},
				{Name: "random", N: tierN(tier, 20000, 400000), Run: func(c *Ctx, idx int) {
					n := 5 + c.R.Intn(26)
					ops := make([]nlvOp, n)
					for i := range ops {
						ops[i] = nlvOp{"SSADGXXE"[c.R.Intn(8)], c.R.Intn(len(nlvTags)), c.R.Intn(len(nlvTexts))}
					}
					c.Distinct("h|"+nlvOpsString(ops), true)
					runNLVHistory(c, ops)
				}},
			}
		},
		Floors: func(tier string) map[string]int64 {
			return map[string]int64{"histories": 100000, "equality-comparisons": int64(len(lists) * len(lists)), "op:S": 50000}
		},
		Assumptions: []string{"Set overwrites every entry carrying the tag (the statement constrains Get(tag), the other tags, the order and the growth, not which duplicate is overwritten)"},
	})
}
