package mon

import (
	"fmt"
	"net/url"
	"reflect"
	"strings"

	vocab "github.com/go-ap/activitypub"

	"verif/harness/vmodel"
)

// C15: collection IRIs and their owners convert back and forth consistently.

var colNames = []vocab.CollectionPath{vocab.Inbox, vocab.Outbox, vocab.Followers, vocab.Following, vocab.Liked, vocab.Likes, vocab.Shares, vocab.Replies}
var actorCols = map[vocab.CollectionPath]string{vocab.Inbox: "Inbox", vocab.Outbox: "Outbox", vocab.Followers: "Followers", vocab.Following: "Following", vocab.Liked: "Liked"}
var objectCols = map[vocab.CollectionPath]string{vocab.Likes: "Likes", vocab.Shares: "Shares", vocab.Replies: "Replies"}

var ownerHosts = []string{"https://example.com", "https://social.example:8443", "http://a.b.example.org", "https://EXAMPLE.com", "https://xn--bcher-kva.example", "https://[2001:db8::1]", "https://[2001:db8::1]:8443", "https://10.0.0.1:8080"}
var ownerPaths = []string{"", "/", "/users/jdoe", "/users/jdoe/", "/a/b/c", "/o/x%20y", "/~x", "/inbox", "/users/outbox/jdoe", "/users/jdoe/likes", "/UPPER/Case", "/a.b/c_d", "/a/b/c/d/e/f/g/h/i/j/k/l", "/users/j%C3%BCrgen", "/users/jdoe/followers/x", "/Inbox", "/files/what%3Fnow", "/tag/%23go", "/rate/100%25", "/a%2Fb/c"}

func isColName(s string) bool {
	for _, c := range colNames {
		if strings.EqualFold(string(c), s) {
			return true
		}
	}
	return false
}

func lastSegment(iri string) string {
	u, err := url.Parse(iri)
	if err != nil {
		return ""
	}
	p := strings.TrimRight(u.Path, "/")
	if i := strings.LastIndexByte(p, '/'); i >= 0 {
		return p[i+1:]
	}
	return p
}

func ownerClass(p string) string {
	switch {
	case p == "":
		return "no-path"
	case p == "/":
		return "root"
	case strings.HasSuffix(p, "/"):
		return "trailing-slash"
	case strings.Contains(p, "%"):
		return "percent-escape"
	case isColName(lastSegment("https://h" + p)):
		return "ends-in-collection-name"
	}
	for _, seg := range strings.Split(p, "/") {
		if isColName(seg) {
			return "contains-collection-name"
		}
	}
	return "plain"
}

func equivIRI(a, b vocab.IRI) bool {
	ka, oka := refKey(string(a), true)
	kb, okb := refKey(string(b), true)
	return oka && okb && ka == kb
}

func checkOwnerLaws(c *Ctx, owner vocab.IRI, cls string, name vocab.CollectionPath) {
	var built, so, oa vocab.IRI
	var sc vocab.CollectionPath
	var err error
	var valid, ownerValid bool
	label := fmt.Sprintf("owner %q name %q", string(owner), name)
	c.Pending(label)
	if c.Guard("IRIf/Split/OfActor", func() {
		built = vocab.IRIf(owner, name)
		so, sc = vocab.Split(built)
		oa, err = name.OfActor(built)
		valid = vocab.ValidCollectionIRI(built)
		ownerValid = vocab.ValidCollectionIRI(owner)
	}) {
		return
	}
	c.Eval(5)
	c.Count("owner-laws", 1)
	fail := func(law, what string) {
		c.Fail(fmt.Sprintf("col|%s|%s", law, cls), fmt.Sprintf("%s: %s", label, what), map[string]any{"owner": owner, "name": name, "built": built})
	}
	// independent construction: the owner's path with the collection name as one more segment
	if model := vocab.IRI(strings.TrimRight(string(owner), "/") + "/" + string(name)); !equivIRI(built, model) {
		fail("built-form", fmt.Sprintf("IRIf(%q, %s) = %q, not equivalent to %q", owner, name, built, model))
	}
	if !strings.EqualFold(string(sc), string(name)) {
		fail("split-name", fmt.Sprintf("Split(%q) returned collection %q", built, sc))
	}
	if !equivIRI(so, owner) {
		fail("split-owner", fmt.Sprintf("Split(%q) returned owner %q, not equivalent to %q", built, so, owner))
	}
	if err != nil {
		fail("ofactor-error", fmt.Sprintf("%s.OfActor(%q) failed: %v", name, built, err))
	} else if !equivIRI(oa, owner) {
		fail("ofactor-owner", fmt.Sprintf("%s.OfActor(%q) = %q, not equivalent to %q", name, built, oa, owner))
	}
	if !valid {
		fail("valid-built", fmt.Sprintf("ValidCollectionIRI(%q) is false", built))
	}
	if !isColName(lastSegment(string(owner))) && ownerValid {
		fail("valid-owner", fmt.Sprintf("ValidCollectionIRI(%q) is true although its last segment is not a collection name", owner))
	}
	// the helper on a bare owner IRI builds the same IRI
	var viaIRI vocab.IRI
	if !c.Guard("CollectionPath.IRI", func() { viaIRI = name.IRI(owner) }) {
		c.Eval(1)
		if !equivIRI(viaIRI, built) {
			fail("iri-of-owner", fmt.Sprintf("%s.IRI(%q) = %q, expected %q", name, owner, viaIRI, built))
		}
	}
}

// checkHelper: c.IRI(x)/c.Of(x)/AddTo for an object or actor with a subset of its collection properties explicitly set.
func checkHelper(c *Ctx, actor bool, owner vocab.IRI, mask int, valueForm bool) {
	var x vocab.Item
	var v reflect.Value
	props := objectCols
	kind := "object"
	if actor {
		a := &vocab.Actor{ID: owner, Type: []vocab.ActivityVocabularyType{vocab.PersonType, vocab.ActorType, vocab.ServiceType, vocab.GroupType}[mask%4]}
		x, v = a, reflect.ValueOf(a).Elem()
		kind = "actor"
		if mask%4 == 1 {
			kind = "actor-generic-type"
		}
	} else {
		// every non-actor object kind carries likes/shares/replies
		var oks []vmodel.StructKind
		for _, k := range vmodel.Kinds {
			if k.Fam != "actor" && k.Fam != "link" {
				oks = append(oks, k)
			}
		}
		k := oks[(mask+len(owner))%len(oks)]
		p := reflect.ValueOf(k.New())
		p.Elem().FieldByName("ID").Set(reflect.ValueOf(owner))
		p.Elem().FieldByName("Type").Set(reflect.ValueOf(vocab.ActivityVocabularyType(k.SpecificType())))
		x, v = p.Interface().(vocab.Item), p.Elem()
		kind = "object"
	}
	explicit := map[vocab.CollectionPath]vocab.IRI{}
	bit := 0
	for _, n := range colNames {
		fn, ok := props[n]
		if actor {
			if f2, ok2 := actorCols[n]; ok2 {
				fn, ok = f2, true
			}
		}
		if !ok {
			continue
		}
		if mask&(1<<bit) != 0 {
			e := vocab.IRI(fmt.Sprintf("https://elsewhere.example/explicit/%s/%d", n, mask))
			// the explicit property as a bare IRI, as an embedded collection object without members, or as one that has
			// been appended to (its id is the answer in all three)
			var val vocab.Item = e
			switch (mask + bit) % 3 {
			case 1:
				val = &vocab.OrderedCollection{ID: e, Type: vocab.OrderedCollectionType}
			case 2:
				col := &vocab.Collection{ID: e, Type: vocab.CollectionType}
				_ = col.Append(vocab.IRI("https://elsewhere.example/member/1"), &vocab.Object{ID: "https://elsewhere.example/member/2", Type: vocab.NoteType})
				col.TotalItems = 2
				val = col
			}
			v.FieldByName(fn).Set(reflect.ValueOf(val))
			explicit[n] = e
		}
		bit++
	}
	probe := x
	if valueForm {
		probe = v.Interface().(vocab.Item)
	}
	for _, n := range colNames {
		label := fmt.Sprintf("%s %q explicit=%v %s", kind, string(owner), keys(explicit), n)
		want := vocab.IRIf(owner, n)
		setCls := "unset"
		if e, ok := explicit[n]; ok {
			want = e
			setCls = "explicit"
		}
		var gotIRI vocab.IRI
		var gotOf vocab.Item
		c.Pending(label)
		if c.Guard("CollectionPath.IRI/Of", func() { gotIRI = n.IRI(probe); gotOf = n.Of(probe) }) {
			continue
		}
		c.Eval(2)
		c.Count("helper-laws", 1)
		if !equivIRI(gotIRI, want) && gotIRI != want {
			c.Fail(fmt.Sprintf("col|helper-IRI|%s|%s|%s", kind, n, setCls), fmt.Sprintf("%s: %s.IRI(x) = %q, expected %q", label, n, string(gotIRI), string(want)), map[string]any{"case": label, "got": gotIRI, "want": want})
		}
		if gotOf == nil || (!equivIRI(gotOf.GetLink(), want) && gotOf.GetLink() != want) {
			g := "<nil>"
			if gotOf != nil {
				g = string(gotOf.GetLink())
			}
			c.Fail(fmt.Sprintf("col|helper-Of|%s|%s|%s", kind, n, setCls), fmt.Sprintf("%s: %s.Of(x) = %q, expected %q", label, n, g, string(want)), map[string]any{"case": label, "got": g, "want": want})
		}
	}
	if valueForm {
		return
	}
	// AddTo sets exactly the matching unset property
	for _, n := range colNames {
		fn, mine := props[n]
		if actor {
			if f2, ok2 := actorCols[n]; ok2 {
				fn, mine = f2, true
			}
		}
		if !mine {
			continue
		}
		before := map[string]any{}
		for i := 0; i < v.NumField(); i++ {
			if v.Type().Field(i).IsExported() {
				before[v.Type().Field(i).Name] = v.Field(i).Interface()
			}
		}
		var iri vocab.IRI
		var status bool
		label := fmt.Sprintf("%s %q explicit=%v AddTo(%s)", kind, owner, keys(explicit), n)
		if c.Guard("CollectionPath.AddTo", func() { iri, status = n.AddTo(x) }) {
			continue
		}
		c.Eval(1)
		c.Count("addto-laws", 1)
		_, was := explicit[n]
		if was == status {
			c.Fail(fmt.Sprintf("col|addto-status|%s|%s", kind, n), fmt.Sprintf("%s: status=%v although the property was set=%v", label, status, was), map[string]any{"case": label})
		}
		for i := 0; i < v.NumField(); i++ {
			if !v.Type().Field(i).IsExported() {
				continue
			}
			name := v.Type().Field(i).Name
			now := v.Field(i).Interface()
			changed := !reflect.DeepEqual(before[name], now)
			switch {
			case name == fn && !was:
				if it, ok := now.(vocab.Item); !ok || it == nil || !equivIRI(it.GetLink(), vocab.IRIf(owner, n)) {
					c.Fail(fmt.Sprintf("col|addto-sets|%s|%s", kind, n), fmt.Sprintf("%s: property %s is %v, expected the built collection IRI", label, name, now), map[string]any{"case": label})
				} else if !equivIRI(iri, it.GetLink()) {
					c.Fail(fmt.Sprintf("col|addto-returns|%s|%s", kind, n), fmt.Sprintf("%s: returned %q but set %q", label, iri, it.GetLink()), map[string]any{"case": label})
				}
				explicit[n] = vocab.IRIf(owner, n)
			case changed:
				c.Fail(fmt.Sprintf("col|addto-touches-other|%s|%s|%s", kind, n, name), fmt.Sprintf("%s changed %s", label, name), map[string]any{"case": label})
			}
		}
	}
}

func keys(m map[vocab.CollectionPath]vocab.IRI) []string {
	var out []string
	for _, n := range colNames {
		if _, ok := m[n]; ok {
			out = append(out, string(n))
		}
	}
	return out
}

func init() {
	nOwners := len(ownerHosts) * len(ownerPaths)
	Register(&Prop{
		ID: "C15",
		Rule: fmt.Sprintf("inverse laws as oracles: Split(IRIf(o,c)) = (o',c) with o' equivalent to o, c.OfActor(IRIf(o,c)) likewise, ValidCollectionIRI(IRIf(o,c)), not ValidCollectionIRI(o) when o's last segment is no collection name, c.IRI(o) = IRIf(o,c); exhaustive over %d hosts x %d owner paths (empty, /, nested, trailing slash, percent escapes, segments that are collection names, a path ending in one) x 8 names; "+
			"helpers: c.IRI(x)/c.Of(x) = the explicitly set property when present else the built IRI, AddTo sets exactly the matching unset property - for objects (every subset of likes/shares/replies) and actors (every subset of the 8), pointer and value forms, on every owner; random owners beyond; distinct = (owner, name) / (kind, owner, subset); non-trivial = all", len(ownerHosts), len(ownerPaths)),
		Layers: func(tier string) []Layer {
			return []Layer{
				{Name: "owner-grid", N: nOwners * len(colNames), Exhaustive: true, Run: func(c *Ctx, idx int) {
					o := idx / len(colNames)
					p := ownerPaths[o%len(ownerPaths)]
					owner := vocab.IRI(ownerHosts[o/len(ownerPaths)] + p)
					n := colNames[idx%len(colNames)]
					c.Distinct(string(owner)+"|"+string(n), true)
					if idx%100 == 0 {
						c.Sample(map[string]any{"owner": owner, "name": n})
					}
					checkOwnerLaws(c, owner, ownerClass(p), n)
				}},
				{Name: "helpers", N: nOwners * (8 + 256) * 2, Exhaustive: true, Run: func(c *Ctx, idx int) {
					valueForm := idx%2 == 1
					k := idx / 2
					o := k / (8 + 256)
					m := k % (8 + 256)
					owner := vocab.IRI(ownerHosts[o/len(ownerPaths)] + ownerPaths[o%len(ownerPaths)])
					if ownerPaths[o%len(ownerPaths)] == "" || ownerPaths[o%len(ownerPaths)] == "/" {
						owner = vocab.IRI(ownerHosts[o/len(ownerPaths)] + "/u" + ownerPaths[o%len(ownerPaths)])
					}
					actor := m >= 8
					mask := m
					if actor {
						mask = m - 8
					}
					c.Distinct(fmt.Sprintf("helper|%s|%v|%d|%v", owner, actor, mask, valueForm), true)
					if idx%9000 == 1 {
						c.Sample(map[string]any{"owner": owner, "actor": actor, "explicit_mask": mask, "value_form": valueForm})
					}
					checkHelper(c, actor, owner, mask, valueForm)
				}},
				{Name: "random-owners", N: tierN(tier, 20000, 300000), Run: func(c *Ctx, idx int) {
					segs := []string{"users", "jdoe", "a", "b%20c", "~x", "inbox", "Outbox", "likes", "UP", "x.y", "1", "actors", "following"}
					sb := strings.Builder{}
					sb.WriteString(ownerHosts[c.R.Intn(len(ownerHosts))])
					cls := "random"
					for k := c.R.Intn(5); k > 0; k-- {
						sb.WriteString("/" + segs[c.R.Intn(len(segs))])
					}
					if c.R.Intn(4) == 0 {
						sb.WriteString("/")
					}
					owner := vocab.IRI(sb.String())
					n := colNames[c.R.Intn(len(colNames))]
					c.Distinct(string(owner)+"|"+string(n), true)
					checkOwnerLaws(c, owner, cls, n)
				}},
			}
		},
		Floors: func(tier string) map[string]int64 {
			return map[string]int64{"owner-laws": 10000, "helper-laws": 50000, "addto-laws": 10000}
		},
		Assumptions: []string{"owners are absolute URLs without query or fragment; equivalence of owner IRIs is the C14 normaliser (scheme checked)"},
	})
}
