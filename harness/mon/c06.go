package mon

import (
	"bytes"
	"fmt"
	"math/rand"
	"reflect"
	"strings"
	"unicode/utf8"

	vocab "github.com/go-ap/activitypub"

	"verif/harness/vmodel"
)

// C06: natural-language text survives both codecs byte for byte.

var textProps = []string{"name", "summary", "content", "preferredUsername", "source.content", "source.content-only"}
var textForms = []string{"single-untagged", "single-tagged", "map-entry", "map-entry-untagged", "map-same-text", "map-entry-beside-empty"}
var textCodecs = []string{"json-pkg", "json-method", "gob-pkg", "gob-method"}

// text corpus by class (valid UTF-8 only: the statement's domain)
var textCorpus = []hostile{
	{"html", `<p>Hello <a href="https://example.com/?a=1&amp;b=2">world</a></p>`},
	{"quote", `say "hi"`}, {"quote", `"`}, {"quote", `""`}, {"quote", `'single'`},
	{"backslash", `C:\new`}, {"backslash", `a\tb`}, {"backslash", `\`}, {"backslash", `\\`}, {"backslash", `a\`}, {"backslash", `\a\f\v\r`}, {"backslash", `\\u00e9`},
	{"backslash-quote", `a\"b`}, {"backslash-quote", `\"`},
	{"newline", "line1\nline2"}, {"newline", "\n"}, {"newline", "a\r\nb"}, {"newline", "tab\there"},
	{"control", "a\x00b"}, {"control", "\x01\x02\x1f"}, {"control", "bell\a ff\f vt\v"}, {"control", "del\x7f"},
	{"astral", "😀𝄞 𐍈"}, {"ls-ps", "a\u2028b\u2029c"}, {"unicode", "Ünïcödé ✓ 日本語 \ufeff bom"},
	{"escape-lookalike", `\n`}, {"escape-lookalike", `\u00e9`}, {"escape-lookalike", `\ud83d\ude00`}, {"escape-lookalike", `&amp;&#39;`}, {"escape-lookalike", `%22%5C`},
	{"json-looking", `42`}, {"json-looking", `true`}, {"json-looking", `false`}, {"json-looking", `null`}, {"json-looking", `[1,2]`}, {"json-looking", `{"a":"b"}`}, {"json-looking", `"q"`}, {"json-looking", `{"en":"x"}`}, {"json-looking", `-1.5e3`}, {"json-looking", `[]`}, {"json-looking", `{}`},
	{"one-byte", `a`}, {"one-byte", `0`}, {"one-byte", `{`}, {"one-byte", `[`}, {"one-byte", ` `}, {"one-byte", `-`},
	{"two-byte", `ab`}, {"two-byte", `""`}, {"two-byte", `é`},
	{"space", "  leading and trailing  "}, {"space", "\t"},
	{"json-fragment", `x","type":"Delete`}, {"json-fragment", `"}`}, {"json-fragment", `"},"nameMap":{"en":"x`},
	{"long", "0123456789abcdefghijklmnopqrstuvwxyzABCDEFGHIJKLMNOPQRSTUVWXYZ0123456789abcdefghijklmnopqrstuvwxyzABCDEFGHIJKLMNOPQRSTUVWXYZ"},
}

var textAlphabet = []string{"\u2066", "\u2069", "\u202e", "\u200d", "\u0085", "\ufeff", "\ufffd", "\U0010ffff", `\`, `"`, `/`, `n`, `t`, `u`, `0`, `1`, `9`, `{`, `}`, `[`, `]`, `:`, `,`, ` `, "\n", "\t", "\r", "\x00", "\x1f", "\x7f", "a", "b", "é", "日", "😀", "\u2028", "&", "<", ">", "'", "%", "-", ".", "e", "E", "x", "f", "r", "v"}
var textTags = []vocab.LangRef{"en", "fr", "de-AT", "zh-Hant-TW", "x-private", "ro"}

// every code point of the ranges where escapers special-case things: ASCII and C1 controls, Latin, general punctuation
// (line/paragraph separators, bidi embeddings and isolates, zero-width characters), symbols, the edges of the BMP, some astral ones
var sweepCodePoints = func() []rune {
	var out []rune
	add := func(lo, hi rune) {
		for r := lo; r <= hi; r++ {
			if r >= 0xD800 && r <= 0xDFFF {
				continue
			}
			out = append(out, r)
		}
	}
	add(0x00, 0x2FFF)
	add(0xD7F0, 0xD7FF)
	add(0xE000, 0xE00F)
	add(0xFB00, 0xFB06)
	add(0xFDD0, 0xFDEF)
	add(0xFE00, 0xFE0F)
	add(0xFEFF, 0xFEFF)
	add(0xFFF0, 0xFFFF)
	add(0x10000, 0x1000F)
	add(0x1D100, 0x1D12F)
	add(0x1F600, 0x1F64F)
	add(0xE0000, 0xE007F)
	add(0x10FFF0, 0x10FFFF)
	return out
}()

func codePointClass(r rune) string {
	switch {
	case r < 0x20 || r == 0x7f:
		return "control"
	case r < 0x80:
		return "ascii"
	case r < 0xA0:
		return "c1-control"
	case r >= 0x2000 && r <= 0x206F:
		return "general-punctuation"
	case r > 0xFFFF:
		return "astral"
	}
	return "bmp"
}

func randomText(r *rand.Rand) string {
	n := 1 + r.Intn(64)
	b := make([]byte, 0, n)
	for len(b) < n {
		b = append(b, textAlphabet[r.Intn(len(textAlphabet))]...)
	}
	s := string(b)
	if !utf8.ValidString(s) {
		panic("randomText produced invalid UTF-8")
	}
	return s
}

// buildTextValue builds an object/actor holding text s in the given property and form.
// It returns the value, a getter for the text after decoding, and the tag expected (if any).
func buildTextValue(prop, form, s string, r *rand.Rand) (vocab.Item, func(any) (vocab.NaturalLanguageValues, bool), vocab.NaturalLanguageValues, string) {
	var nlv vocab.NaturalLanguageValues
	switch form {
	case "single-untagged":
		nlv = vocab.NaturalLanguageValues{{Ref: vocab.NilLangRef, Value: vocab.Content(s)}}
	case "single-tagged":
		nlv = vocab.NaturalLanguageValues{{Ref: textTags[r.Intn(len(textTags))], Value: vocab.Content(s)}}
	case "map-same-text":
		// two or three tags carrying byte-identical text (a place name is the same in many languages)
		tags := append([]vocab.LangRef{}, textTags...)
		r.Shuffle(len(tags), func(i, j int) { tags[i], tags[j] = tags[j], tags[i] })
		n := 3 + r.Intn(2)
		for i := 0; i < n; i++ {
			t := s
			if i == n-1 {
				t = "a different text"
			}
			nlv = append(nlv, vocab.LangRefValue{Ref: tags[i], Value: vocab.Content(t)})
		}
	case "map-entry-beside-empty":
		// a translation was withdrawn: the text sits under its tag next to one or two entries whose text is empty (or nil)
		tags := append([]vocab.LangRef{}, textTags...)
		r.Shuffle(len(tags), func(i, j int) { tags[i], tags[j] = tags[j], tags[i] })
		n := 2 + r.Intn(2)
		pos := r.Intn(n)
		for i := 0; i < n; i++ {
			switch {
			case i == pos:
				nlv = append(nlv, vocab.LangRefValue{Ref: tags[i], Value: vocab.Content(s)})
			case r.Intn(2) == 0:
				nlv = append(nlv, vocab.LangRefValue{Ref: tags[i], Value: vocab.Content{}})
			default:
				nlv = append(nlv, vocab.LangRefValue{Ref: tags[i]})
			}
		}
	case "map-entry-untagged":
		// the text sits in the untagged entry of a list that also has tagged ones
		n := 2 + r.Intn(2)
		pos := r.Intn(n)
		for i := 0; i < n; i++ {
			if i == pos {
				nlv = append(nlv, vocab.LangRefValue{Ref: vocab.NilLangRef, Value: vocab.Content(s)})
			} else {
				nlv = append(nlv, vocab.LangRefValue{Ref: textTags[i], Value: vocab.Content("other text " + fmt.Sprint(i))})
			}
		}
	default:
		tags := append([]vocab.LangRef{}, textTags...)
		r.Shuffle(len(tags), func(i, j int) { tags[i], tags[j] = tags[j], tags[i] })
		n := 2 + r.Intn(2)
		pos := r.Intn(n)
		for i := 0; i < n; i++ {
			t := "other text " + fmt.Sprint(i)
			if i == pos {
				t = s
			}
			nlv = append(nlv, vocab.LangRefValue{Ref: tags[i], Value: vocab.Content(t)})
		}
	}
	// the carrier: any struct kind that declares the property, typed with any vocabulary name of that kind, in pointer form,
	// at top level or (every third case) as the object of an activity, which routes it through the generic item path
	fieldName := map[string]string{"name": "Name", "summary": "Summary", "content": "Content", "preferredUsername": "PreferredUsername", "source.content": "Source", "source.content-only": "Source"}[prop]
	var ks []vmodel.StructKind
	for _, k := range vmodel.Kinds {
		if _, ok := reflect.TypeOf(k.New()).Elem().FieldByName(fieldName); ok {
			ks = append(ks, k)
		}
	}
	k := ks[r.Intn(len(ks))]
	typ := k.Types[r.Intn(len(k.Types))]
	p := k.New()
	v := reflect.ValueOf(p).Elem()
	v.FieldByName("ID").Set(reflect.ValueOf(vocab.IRI("https://example.com/text/1")))
	v.FieldByName("Type").Set(reflect.ValueOf(vocab.ActivityVocabularyType(typ)))
	switch prop {
	case "source.content":
		v.FieldByName("Source").Set(reflect.ValueOf(vocab.Source{Content: nlv, MediaType: "text/markdown"}))
	case "source.content-only":
		v.FieldByName("Source").Set(reflect.ValueOf(vocab.Source{Content: nlv})) // a source without a media type
	default:
		v.FieldByName(fieldName).Set(reflect.ValueOf(nlv))
	}
	nested := r.Intn(3) == 0
	get := func(x any) (vocab.NaturalLanguageValues, bool) {
		if nested {
			a, ok := x.(*vocab.Activity)
			if !ok || a == nil {
				return nil, false
			}
			x = a.Object
		}
		xv := reflect.ValueOf(x)
		if !xv.IsValid() || xv.Kind() != reflect.Pointer || xv.IsNil() || xv.Type() != reflect.TypeOf(p) {
			return nil, false
		}
		f := xv.Elem().FieldByName(fieldName)
		if fieldName == "Source" {
			return f.Interface().(vocab.Source).Content, true
		}
		return f.Interface().(vocab.NaturalLanguageValues), true
	}
	var x vocab.Item = p.(vocab.Item)
	if nested {
		// the outer value carries the same property with a text of its own (same length, other bytes), written before the inner one
		outer := &vocab.Activity{ID: "https://example.com/text/outer", Type: vocab.AnnounceType, Object: x}
		ot := vocab.NaturalLanguageValues{{Ref: vocab.NilLangRef, Value: vocab.Content(outerText(s))}}
		switch fieldName {
		case "Source":
			outer.Source = vocab.Source{Content: ot, MediaType: "text/plain"}
		case "PreferredUsername":
			outer.Name = ot
		default:
			reflect.ValueOf(outer).Elem().FieldByName(fieldName).Set(reflect.ValueOf(ot))
		}
		x = outer
	}
	return x, get, nlv, fmt.Sprintf("%s[%s] nested=%v", k.Name, typ, nested)
}

// outerText: a text of the same length as s that differs from it in every byte position that allows it
func outerText(s string) string {
	b := []byte(s)
	for i := range b {
		if b[i] < 0x80 && b[i] != 'o' {
			b[i] = 'o'
		} else if b[i] == 'o' {
			b[i] = 'O'
		}
	}
	if string(b) == s || !utf8.Valid(b) {
		return "outer " + s
	}
	return string(b)
}

func outerTextOf(x any, fieldName string) (vocab.NaturalLanguageValues, bool) {
	a, ok := x.(*vocab.Activity)
	if !ok || a == nil {
		return nil, false
	}
	switch fieldName {
	case "Source":
		return a.Source.Content, true
	case "PreferredUsername":
		return a.Name, true
	}
	return reflect.ValueOf(a).Elem().FieldByName(fieldName).Interface().(vocab.NaturalLanguageValues), true
}

func checkText(c *Ctx, prop, form, codec, class, s string) {
	x, get, want, carrier := buildTextValue(prop, form, s, c.R)
	label := fmt.Sprintf("%s %s %s %q in %s", codec, prop, form, s, carrier)
	c.Count("carrier:"+carrier[:strings.Index(carrier, " ")], 1)
	var pairs []codecPair
	switch codec {
	case "json-pkg":
		pairs = jsonPairs[:1]
	case "json-method":
		pairs = jsonPairs[1:]
	case "gob-pkg":
		pairs = gobPairs[:1]
	default:
		pairs = gobPairs[1:2]
	}
	p := pairs[0]
	var b []byte
	var err error
	var got any
	c.Pending(label)
	if c.Guard(codec+".encode", func() { b, err = p.enc(x) }) {
		return
	}
	c.Eval(1)
	sigBase := fmt.Sprintf("text|%s|%s|%s", codec[:3], formClass(form), class)
	if err != nil {
		c.Fail(sigBase+"|encode-error", fmt.Sprintf("encoding %s failed: %v", label, err), map[string]any{"case": label, "error": err.Error()})
		return
	}
	if c.Guard(codec+".decode", func() { got, err = p.dec(b, x) }) {
		return
	}
	c.Eval(1)
	if err != nil {
		c.Fail(sigBase+"|decode-error", fmt.Sprintf("decoding own encoding of %s failed: %v", label, err), map[string]any{"case": label, "error": err.Error(), "bytes": clipB(b)})
		return
	}
	c.Count("roundtrips", 1)
	c.Count("codec:"+codec, 1)
	keepDecoded(c, "text", vmodel.Exact, got, label)
	gotN, ok := get(got)
	if !ok {
		c.Fail(sigBase+"|wrong-type", fmt.Sprintf("decoding %s gave %T", label, got), map[string]any{"case": label, "bytes": clipB(b)})
		return
	}
	if strings.HasSuffix(carrier, "nested=true") {
		fieldName := map[string]string{"name": "Name", "summary": "Summary", "content": "Content", "preferredUsername": "PreferredUsername", "source.content": "Source", "source.content-only": "Source"}[prop]
		if on, ok := outerTextOf(got, fieldName); !ok || len(on) != 1 || string(on[0].Value) != outerText(s) {
			c.Fail(sigBase+"|outer-text-changed", fmt.Sprintf("%s: the text of the enclosing value came back as %q, stored %q", label, on, outerText(s)),
				map[string]any{"case": label, "stored": fmt.Sprintf("%q", outerText(s)), "got": fmt.Sprintf("%q", on), "bytes": clipB(b)})
		}
	}
	jsonCodec := codec[:4] == "json"
	if form == "map-entry-beside-empty" {
		// entries without a text carry nothing: whether a codec keeps them is its own business, the entry with the text must be there
		want, gotN = withText(want), withText(gotN)
	}
	if len(gotN) != len(want) {
		c.Fail(sigBase+"|entries-lost", fmt.Sprintf("%s: %d entries stored, %d came back", label, len(want), len(gotN)),
			map[string]any{"case": label, "want": fmt.Sprintf("%q", want), "got": fmt.Sprintf("%q", gotN), "bytes": clipB(b)})
		return
	}
	for i := range want {
		wantRef := want[i].Ref
		if jsonCodec && len(want) == 1 && form != "map-entry-beside-empty" {
			wantRef = vocab.NilLangRef // a lone tagged string is written collapsed and returns untagged
		}
		if gotN[i].Ref != wantRef {
			c.Fail(sigBase+"|tag-changed", fmt.Sprintf("%s: tag %q came back as %q", label, wantRef, gotN[i].Ref),
				map[string]any{"case": label, "bytes": clipB(b)})
		}
		if !bytes.Equal(gotN[i].Value, want[i].Value) {
			// separate "writer wrong" from "reader wrong" for JSON by reading the emitted document independently
			side := ""
			if jsonCodec {
				side = "|" + jsonTextSide(b, prop, form, want, i)
			}
			c.Fail(sigBase+"|text-changed"+side, fmt.Sprintf("%s: stored %q, came back %q", label, want[i].Value, gotN[i].Value),
				map[string]any{"case": label, "stored": fmt.Sprintf("%q", want[i].Value), "got": fmt.Sprintf("%q", gotN[i].Value), "bytes": clipB(b)})
		}
	}
}

func withText(n vocab.NaturalLanguageValues) vocab.NaturalLanguageValues {
	var out vocab.NaturalLanguageValues
	for _, e := range n {
		if len(e.Value) > 0 {
			out = append(out, e)
		}
	}
	return out
}

func formClass(form string) string {
	if strings.HasPrefix(form, "map-entry") {
		return "map"
	}
	return "single"
}

// jsonTextSide says whether the emitted document already holds a different text (writer) or not (reader).
func jsonTextSide(b []byte, prop, form string, want vocab.NaturalLanguageValues, i int) string {
	root, _, err := vmodel.StrictParse(b)
	if err != nil {
		return "writer-invalid-json"
	}
	if o, id := root.Get("object"), root.Get("id"); o != nil && o.Kind == "object" && id != nil && id.S == "https://example.com/text/outer" {
		root = o
	}
	obj := root
	term := prop
	if strings.HasPrefix(prop, "source.content") {
		obj = root.Get("source")
		term = "content"
	}
	if obj == nil {
		return "writer"
	}
	var node *vmodel.JVal
	if len(want) == 1 && form != "map-entry-beside-empty" {
		node = obj.Get(term)
	} else if mp := obj.Get(term + "Map"); mp != nil {
		node = mp.Get(string(want[i].Ref))
	}
	if node == nil || node.Kind != "string" || node.S != string(want[i].Value) {
		return "writer"
	}
	return "reader"
}

func init() {
	nProp, nForm, nCodec := len(textProps), len(textForms), len(textCodecs)
	per := nProp * nForm * nCodec
	Register(&Prop{
		ID: "C06",
		Rule: "cases: every text class (HTML, quotes, backslashes, newlines, control characters, astral code points, escape look-alikes, JSON-looking text, 1- and 2-byte texts, JSON fragments) x the text-bearing properties (name, summary, content, preferredUsername, source content with and without a media type) x {single untagged, single tagged, entry of a 2-3 language map, untagged entry of a 2-3 entry list} x {JSON package pair, JSON method pair, gob package pair, gob method pair}, exhaustively; a sweep of ~13 000 individual code points (U+0000-U+2FFF and the edges of the planes) one per case; " +
			"then seeded random valid-UTF-8 strings (length 1-64) over an alphabet biased to \\ \" / n t u digits braces brackets control bytes and multi-byte runes; oracle is bytes.Equal on the text and equality of the tags; distinct = (codec, property, form, text); non-trivial = the text is not plain ASCII letters",
		Layers: func(tier string) []Layer {
			return []Layer{
				{Name: "classes", N: len(textCorpus) * per, Exhaustive: true, Run: func(c *Ctx, idx int) {
					t := textCorpus[idx/per]
					r := idx % per
					prop, form, codec := textProps[r/(nForm*nCodec)], textForms[(r/nCodec)%nForm], textCodecs[r%nCodec]
					c.R = rand.New(rand.NewSource(int64(idx)))
					c.Distinct(fmt.Sprintf("%s|%s|%s|%s", codec, prop, form, t.S), true)
					c.Count("class:"+t.Class, 1)
					if idx%997 == 0 {
						c.Sample(map[string]any{"codec": codec, "property": prop, "form": form, "text": t.S})
					}
					checkText(c, prop, form, codec, t.Class, t.S)
				}},
				{Name: "codepoints", N: len(sweepCodePoints), Exhaustive: true, Run: func(c *Ctx, idx int) {
					cp := sweepCodePoints[idx]
					s := "x" + string(cp) + "y"
					prop, form, codec := textProps[idx%nProp], textForms[(idx/nProp)%nForm], textCodecs[(idx/7)%nCodec]
					c.R = rand.New(rand.NewSource(int64(idx)))
					c.Distinct(fmt.Sprintf("cp|U+%04X", cp), true)
					c.Count("codepoints", 1)
					if idx%3001 == 0 {
						c.Sample(map[string]any{"codec": codec, "property": prop, "form": form, "code_point": fmt.Sprintf("U+%04X", cp)})
					}
					checkText(c, prop, form, codec, codePointClass(cp), s)
				}},
				{Name: "random", N: tierN(tier, 50000, 1000000), Run: func(c *Ctx, idx int) {
					s := randomText(c.R)
					prop, form, codec := textProps[c.R.Intn(nProp)], textForms[c.R.Intn(nForm)], textCodecs[c.R.Intn(nCodec)]
					c.Distinct(fmt.Sprintf("%s|%s|%s|%s", codec, prop, form, s), true)
					checkText(c, prop, form, codec, classifyString(s), s)
				}},
			}
		},
		Floors: func(tier string) map[string]int64 {
			return map[string]int64{"roundtrips": int64(tierN(tier, 40000, 800000)), "codec:json-pkg": 1000, "codec:gob-pkg": 1000}
		},
		Assumptions: []string{"texts are valid UTF-8 and non-empty (the statement's domain); tags of multi-language maps are distinct and non-empty"},
	})
}
