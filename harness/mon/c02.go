package mon

import (
	"fmt"
	"math"
	"reflect"
	"regexp"
	"sort"
	"strconv"
	"strings"
	"time"
	"unicode/utf8"

	vocab "github.com/go-ap/activitypub"

	"verif/harness/vmodel"
)

// ---- emitted-JSON oracle ----

type emitIssue struct {
	Pos    string // struct-kind.term
	GoType string // Go type of the leaf the issue is about
	Effect string // invalid-json duplicate-member undeclared-member missing-member member-for-unset wrong-json-kind string-altered value-changed list-length
	Detail string
	Held   string // for string-altered: the string the value held
}

type emitChecker struct {
	issues []emitIssue
}

func (e *emitChecker) add(pos, goType, effect, detail string) {
	e.issues = append(e.issues, emitIssue{Pos: pos, GoType: goType, Effect: effect, Detail: clipS(detail, 300)})
}

func isUnsetNode(n *vmodel.Node) bool {
	if n == nil {
		return true
	}
	if (n.Kind == "obj" || n.Kind == "link" || n.Kind == "sub") && len(n.Props) == 0 {
		return true
	}
	if n.Kind == "list" {
		for _, e := range n.List {
			if !isUnsetNode(e) {
				return false
			}
		}
		return true
	}
	return false
}

// checkEmitted parses b strictly and matches it against the Go value x it was written for.
func checkEmitted(x any, b []byte) []emitIssue {
	e := &emitChecker{}
	if len(b) == 0 {
		return nil // empty = nothing to say
	}
	root, dups, err := vmodel.StrictParse(b)
	if err != nil {
		e.add(kindOf(x), kindOf(x), "invalid-json", err.Error())
		return e.issues
	}
	for _, d := range dups {
		e.add(kindOf(x), kindOf(x), "duplicate-member:"+d[strings.LastIndexByte(d, ':')+1:], d)
	}
	v := reflect.ValueOf(x)
	for v.Kind() == reflect.Pointer || v.Kind() == reflect.Interface {
		if v.IsNil() {
			return e.issues
		}
		v = v.Elem()
	}
	e.matchAny(kindOf(x), root, v)
	return e.issues
}

func (e *emitChecker) matchAny(pos string, node *vmodel.JVal, v reflect.Value) {
	for v.Kind() == reflect.Pointer || v.Kind() == reflect.Interface {
		if v.IsNil() {
			return
		}
		v = v.Elem()
	}
	t := v.Type()
	switch {
	case t == vmodel.IriT:
		e.matchString(pos, "IRI", node, v.String())
	case t == vmodel.IcT:
		e.matchList(pos, node, v)
	case t == vmodel.IrisT:
		if node.Kind != "array" {
			if v.Len() == 1 && node.Kind == "string" {
				e.matchString(pos, "IRI", node, v.Index(0).String())
				return
			}
			e.add(pos, "IRIs", "wrong-json-kind", "want array got "+node.Kind)
			return
		}
		if len(node.Arr) != v.Len() {
			e.add(pos, "IRIs", "list-length", fmt.Sprintf("want %d got %d", v.Len(), len(node.Arr)))
			return
		}
		for i := range node.Arr {
			e.matchString(pos, "IRI", node.Arr[i], v.Index(i).String())
		}
	case t.Kind() == reflect.Struct && t != vmodel.TimeT:
		e.matchStruct(node, v)
	default:
		e.matchLeaf(pos, node, v)
	}
}

func (e *emitChecker) matchList(pos string, node *vmodel.JVal, v reflect.Value) {
	// members that canonicalise to nothing are not expected in the output
	var want []reflect.Value
	for i := 0; i < v.Len(); i++ {
		if !isUnsetNode(vmodel.Canon(v.Index(i).Interface(), vmodel.Exact)) {
			want = append(want, v.Index(i))
		}
	}
	if node.Kind != "array" {
		if len(want) == 1 {
			e.matchAny(pos, node, want[0])
			return
		}
		e.add(pos, "ItemCollection", "wrong-json-kind", "want array got "+node.Kind)
		return
	}
	if len(node.Arr) != len(want) {
		e.add(pos, "ItemCollection", "list-length", fmt.Sprintf("want %d got %d", len(want), len(node.Arr)))
		return
	}
	for i := range want {
		e.matchAny(pos, node.Arr[i], want[i])
	}
}

func (e *emitChecker) matchString(pos, goType string, node *vmodel.JVal, want string) {
	if node.Kind != "string" {
		e.add(pos, goType, "wrong-json-kind", "want string got "+node.Kind)
		return
	}
	if !utf8.ValidString(want) {
		return // JSON cannot carry invalid UTF-8: only validity and member structure are required
	}
	if node.S != want {
		e.add(pos, goType, "string-altered", fmt.Sprintf("held %q, document decodes to %q", want, node.S))
		e.issues[len(e.issues)-1].Held = want
	}
}

var xsdDurRe = regexp.MustCompile(`^(-)?P(?:(\d+)Y)?(?:(\d+)M)?(?:(\d+)D)?(?:T(?:(\d+)H)?(?:(\d+)M)?(?:(\d+(?:\.\d+)?)S)?)?$`)

// parseXSDDuration is an independent xsd:duration reader; ok=false if the string is not one.
// exact=false when year or month designators (which have no fixed length) are present.
func parseXSDDuration(s string) (d time.Duration, exact, ok bool) {
	m := xsdDurRe.FindStringSubmatch(s)
	if m == nil || s == "P" || s == "-P" || strings.HasSuffix(s, "T") {
		return 0, false, false
	}
	exact = m[2] == "" && m[3] == ""
	atoi := func(x string) int64 { n, _ := strconv.ParseInt(x, 10, 64); return n }
	d = time.Duration(atoi(m[4]))*24*time.Hour + time.Duration(atoi(m[5]))*time.Hour + time.Duration(atoi(m[6]))*time.Minute
	if m[7] != "" {
		f, _ := strconv.ParseFloat(m[7], 64)
		d += time.Duration(f * float64(time.Second))
	}
	if m[1] == "-" {
		d = -d
	}
	return d, exact, true
}

func (e *emitChecker) matchLeaf(pos string, node *vmodel.JVal, v reflect.Value) {
	t := v.Type()
	switch {
	case t == vmodel.TimeT:
		tm := v.Interface().(time.Time)
		if node.Kind != "string" {
			e.add(pos, "time", "wrong-json-kind", "instant must be an RFC 3339 string, got "+node.Kind)
			return
		}
		got, err := time.Parse(time.RFC3339, node.S)
		if err != nil {
			e.add(pos, "time", "wrong-json-kind", "not RFC 3339: "+node.S)
			return
		}
		if !got.Equal(tm.Truncate(time.Second)) && !got.Equal(tm) {
			e.add(pos, "time", "value-changed", fmt.Sprintf("held %s wrote %s", tm.UTC().Format(time.RFC3339Nano), node.S))
		}
	case t == vmodel.DurT:
		if node.Kind != "string" {
			e.add(pos, "duration", "wrong-json-kind", "duration must be an xsd:duration string, got "+node.Kind)
			return
		}
		d, exact, ok := parseXSDDuration(node.S)
		if !ok {
			e.add(pos, "duration", "wrong-json-kind", "not an xsd:duration: "+node.S)
			return
		}
		want := time.Duration(v.Int())
		if exact && d != want && want%time.Second == 0 {
			e.add(pos, "duration", "value-changed", fmt.Sprintf("held %s wrote %s", want, node.S))
		}
	case t.Kind() == reflect.String:
		e.matchString(pos, t.Name(), node, v.String())
	case t.Kind() == reflect.Bool:
		if node.Kind != "bool" {
			e.add(pos, "bool", "wrong-json-kind", "boolean must be unquoted, got "+node.Kind)
			return
		}
		if (node.S == "true") != v.Bool() {
			e.add(pos, "bool", "value-changed", node.S)
		}
	case t.Kind() == reflect.Uint:
		if node.Kind != "number" {
			e.add(pos, "uint", "wrong-json-kind", "number must be unquoted, got "+node.Kind)
			return
		}
		if n, err := strconv.ParseUint(node.S, 10, 64); err != nil || n != v.Uint() {
			e.add(pos, "uint", "value-changed", fmt.Sprintf("held %d wrote %s", v.Uint(), node.S))
		}
	case t.Kind() == reflect.Int64, t.Kind() == reflect.Int:
		if node.Kind != "number" {
			e.add(pos, "int", "wrong-json-kind", "number must be unquoted, got "+node.Kind)
			return
		}
		if n, err := strconv.ParseInt(node.S, 10, 64); err != nil || n != v.Int() {
			e.add(pos, "int", "value-changed", fmt.Sprintf("held %d wrote %s", v.Int(), node.S))
		}
	case t.Kind() == reflect.Float64:
		if node.Kind != "number" {
			e.add(pos, "float", "wrong-json-kind", "number must be unquoted, got "+node.Kind)
			return
		}
		if f, err := strconv.ParseFloat(node.S, 64); err != nil || f != v.Float() {
			e.add(pos, "float", "value-changed", fmt.Sprintf("held %v wrote %s", v.Float(), node.S))
		}
	default:
		e.add(pos, t.String(), "unhandled-type", t.String())
	}
}

func (e *emitChecker) matchNLV(pos, term string, obj *vmodel.JVal, v reflect.Value) {
	nlv := v.Interface().(vocab.NaturalLanguageValues)
	plain := obj.Get(term)
	mp := obj.Get(term + "Map")
	// a JSON object cannot repeat a member name: of several entries carrying one tag only one can be written; which one the
	// statement does not say, so any of their texts is accepted under that tag, at the position of the first
	alt := map[vocab.LangRef][]string{}
	if len(nlv) > 1 {
		var uniq vocab.NaturalLanguageValues
		for _, e := range nlv {
			if len(e.Value) == 0 || len(e.Ref) == 0 {
				uniq = append(uniq, e)
				continue
			}
			if _, seen := alt[e.Ref]; !seen {
				uniq = append(uniq, e)
			}
			alt[e.Ref] = append(alt[e.Ref], string(e.Value))
		}
		nlv = uniq
	}
	matchText := func(m *vmodel.JVal, lv vocab.LangRefValue) {
		if a := alt[lv.Ref]; len(a) > 1 && m != nil && m.Kind == "string" {
			for _, t := range a {
				if m.S == t {
					return
				}
			}
		}
		e.matchString(pos, "Content", m, string(lv.Value))
	}
	// entries without a text (or without a tag in a multi-entry list) have nothing to say
	if len(nlv) > 1 {
		var kept vocab.NaturalLanguageValues
		for _, e := range nlv {
			if len(e.Value) > 0 && len(e.Ref) > 0 {
				kept = append(kept, e)
			}
		}
		if len(kept) != len(nlv) {
			if len(kept) == 0 {
				if (plain != nil && !plain.IsZero()) || (mp != nil && !mp.IsZero()) {
					e.add(pos, "NaturalLanguageValues", "member-for-unset", "member present although no entry has a text")
				}
				return
			}
			// what remains must still be a language map under the Map term (or, for one entry, a plain string under the plain term)
			if mp != nil {
				if mp.Kind != "object" {
					e.add(pos, "NaturalLanguageValues", "wrong-json-kind", "the "+term+"Map member must be an object keyed by language, got "+mp.Kind)
					return
				}
				if len(mp.Members) != len(kept) {
					e.add(pos, "NaturalLanguageValues", "list-length", fmt.Sprintf("%d entries with a text, %d written", len(kept), len(mp.Members)))
					return
				}
				for i, lv := range kept {
					if mp.Members[i].Name != string(lv.Ref) {
						e.add(pos, "LangRef", "string-altered", fmt.Sprintf("tag %q written as %q", lv.Ref, mp.Members[i].Name))
					}
					matchText(mp.Members[i].Val, lv)
				}
				return
			}
			if plain != nil && len(kept) == 1 {
				e.matchString(pos, "Content", plain, string(kept[0].Value))
				return
			}
			e.add(pos, "NaturalLanguageValues", "missing-member", "no member for the entries that have a text")
			return
		}
	}
	if len(nlv) == 1 {
		if plain == nil {
			if mp != nil && mp.Kind == "object" && len(mp.Members) == 1 && mp.Members[0].Name == string(nlv[0].Ref) {
				e.matchString(pos, "Content", mp.Members[0].Val, string(nlv[0].Value))
				return
			}
			e.add(pos, "NaturalLanguageValues", "missing-member", "no member "+term)
			return
		}
		e.matchString(pos, "Content", plain, string(nlv[0].Value))
		return
	}
	if mp == nil {
		e.add(pos, "NaturalLanguageValues", "missing-member", "no member "+term+"Map for a "+strconv.Itoa(len(nlv))+"-language value")
		return
	}
	if mp.Kind != "object" {
		e.add(pos, "NaturalLanguageValues", "wrong-json-kind", "language map must be an object, got "+mp.Kind)
		return
	}
	if len(mp.Members) != len(nlv) {
		e.add(pos, "NaturalLanguageValues", "list-length", fmt.Sprintf("%d languages held, %d written", len(nlv), len(mp.Members)))
		return
	}
	for i, lv := range nlv {
		m := mp.Members[i]
		if utf8.ValidString(string(lv.Ref)) && m.Name != string(lv.Ref) {
			e.add(pos, "LangRef", "string-altered", fmt.Sprintf("tag %q written as %q", lv.Ref, m.Name))
		}
		matchText(m.Val, lv)
	}
}

func (e *emitChecker) matchStruct(node *vmodel.JVal, v reflect.Value) {
	t := v.Type()
	kind := t.Name()
	if node.Kind != "object" {
		e.add(kind, kind, "wrong-json-kind", "want object got "+node.Kind)
		return
	}
	declared := map[string]reflect.StructField{}
	for i := 0; i < t.NumField(); i++ {
		if t.Field(i).IsExported() {
			declared[vmodel.Term(t.Field(i))] = t.Field(i)
		}
	}
	for _, m := range node.Members {
		if _, ok := declared[m.Name]; ok {
			continue
		}
		if strings.HasSuffix(m.Name, "Map") {
			if f, ok := declared[strings.TrimSuffix(m.Name, "Map")]; ok && f.Type == vmodel.NlvT {
				continue
			}
		}
		e.add(kind+"."+m.Name, kind, "undeclared-member", fmt.Sprintf("member %q is not a term of %s", m.Name, kind))
	}
	for i := 0; i < t.NumField(); i++ {
		f := t.Field(i)
		if !f.IsExported() {
			continue
		}
		term := vmodel.Term(f)
		pos := kind + "." + term
		fv := v.Field(i)
		cn := vmodel.Canon(fv.Interface(), vmodel.Exact)
		set := !isUnsetNode(cn)
		member := node.Get(term)
		if f.Type == vmodel.NlvT {
			mp := node.Get(term + "Map")
			if !set {
				if (member != nil && !member.IsZero()) || (mp != nil && !mp.IsZero()) {
					e.add(pos, f.Type.Name(), "member-for-unset", "member present for an unset property")
				}
				continue
			}
			e.matchNLV(pos, term, node, fv)
			continue
		}
		if !set {
			if member != nil && !member.IsZero() {
				e.add(pos, f.Type.String(), "member-for-unset", "member present with a non-zero value for an unset property")
			}
			continue
		}
		if f.Type.Kind() == reflect.Float64 && (math.IsNaN(fv.Float()) || math.IsInf(fv.Float(), 0)) {
			// JSON has no NaN or infinity: the only faithful things to write are nothing at all for that property
			if member != nil {
				e.add(pos, "float", "wrong-json-kind", "a member was written for a non-finite number: "+member.Kind+" "+member.S)
			}
			continue
		}
		if member == nil {
			e.add(pos, f.Type.String(), "missing-member", "property is set but no member "+term+" was written")
			continue
		}
		if f.Type == vmodel.IcT {
			e.matchList(pos, member, fv)
			continue
		}
		e.matchAny(pos, member, fv)
	}
}

// ---- odd numbers: the ends of every numeric range, and the floats JSON cannot write ----

type oddNumberCase struct {
	Kind  vmodel.StructKind
	Field vmodel.Field
	Name  string
	Class string
	Set   func(fv reflect.Value)
}

var oddNumberCases = func() []oddNumberCase {
	var out []oddNumberCase
	for _, k := range vmodel.Kinds {
		for _, f := range k.Fields() {
			f := f
			add := func(name, class string, set func(fv reflect.Value)) {
				out = append(out, oddNumberCase{k, f, name, class, set})
			}
			switch {
			case f.Type.Kind() == reflect.Float64:
				for n, x := range map[string]float64{"NaN": math.NaN(), "+Inf": math.Inf(1), "-Inf": math.Inf(-1)} {
					x := x
					add(n, "non-finite", func(fv reflect.Value) { fv.SetFloat(x) })
				}
				for n, x := range map[string]float64{"-0": math.Copysign(0, -1), "5e-324": 5e-324, "max": math.MaxFloat64, "-max": -math.MaxFloat64, "1e21": 1e21, "1e-7": 1e-7, "0.1+0.2": 0.1 + 0.2} {
					x := x
					add(n, "finite-edge", func(fv reflect.Value) { fv.SetFloat(x) })
				}
			case f.Type == vmodel.DurT:
				for n, x := range map[string]int64{"1ns": 1, "-1ns": -1, "max": math.MaxInt64, "min": math.MinInt64, "1h": int64(time.Hour)} {
					x := x
					add(n, "duration-edge", func(fv reflect.Value) { fv.SetInt(x) })
				}
			case f.Type.Kind() == reflect.Int64:
				for n, x := range map[string]int64{"max": math.MaxInt64, "min": math.MinInt64, "-1": -1} {
					x := x
					add(n, "int-edge", func(fv reflect.Value) { fv.SetInt(x) })
				}
			case f.Type.Kind() == reflect.Uint:
				for n, x := range map[string]uint64{"max": math.MaxUint64, "2^63": 1 << 63, "1": 1} {
					x := x
					add(n, "uint-edge", func(fv reflect.Value) { fv.SetUint(x) })
				}
			}
		}
	}
	sort.Slice(out, func(i, j int) bool {
		a, b := out[i], out[j]
		return a.Kind.Name+a.Field.Term+a.Name < b.Kind.Name+b.Field.Term+b.Name
	})
	return out
}()

// ---- hostile strings ----

type hostile struct {
	Class string
	S     string
}

var hostileStrings = []hostile{
	{"quote", `a"b`}, {"quote", `"`}, {"quote", `"lead`}, {"quote", `trail"`}, {"quote", `""`},
	{"backslash", `a\b`}, {"backslash", `\`}, {"backslash", `C:\new`},
	{"backslash-quote", `a\"b`}, {"backslash-quote", `\"`},
	{"trailing-backslash", `abc\`},
	{"control", "a\x00b"}, {"control", "a\nb"}, {"control", "a\tb"}, {"control", "\x1f"}, {"control", "a\x7fb"}, {"control", "line1\r\nline2"},
	{"invalid-utf8", "a\xffb"}, {"invalid-utf8", "\xc3\x28"}, {"invalid-utf8", "\xf0\x9f"},
	{"ls-ps", "a\u2028b\u2029c"},
	{"astral", "😀𝄞"},
	{"json-fragment", `x","type":"Delete`}, {"json-fragment", `"}`}, {"json-fragment", `]}`}, {"json-fragment", `","id":"https://evil.example/x`}, {"json-fragment", `x"},{"id":"y`},
	{"escape-lookalike", `\n`}, {"escape-lookalike", `\u00e9`}, {"escape-lookalike", `\\`}, {"escape-lookalike", `a\tb`},
	{"json-looking", `42`}, {"json-looking", `true`}, {"json-looking", `null`}, {"json-looking", `[1,2]`}, {"json-looking", `{"a":"b"}`}, {"json-looking", `"q"`},
	{"plain", `a`}, {"plain", "ordinary text"},
	// look-alikes of the well-known constants: equal to them under the IRI equivalence, not as strings
	{"constant-lookalike", "https://www.w3.org/ns/activitystreams"}, {"constant-lookalike", "https://www.w3.org/ns/activitystreams#Followers"}, {"constant-lookalike", "https://www.w3.org/ns/activitystreams#public"},
	{"constant-lookalike", "HTTPS://WWW.W3.ORG/ns/activitystreams#Public"}, {"constant-lookalike", "http://www.w3.org/ns/activitystreams#Public"}, {"constant-lookalike", "https://www.w3.org/ns/activitystreams/#Public"},
	{"constant-lookalike", "https://w3id.org/security/v1#x"}, {"constant-lookalike", "as:Public"}, {"constant-lookalike", "Public"},
}

// stringPos is a string-bearing position of a struct kind.
type stringPos struct {
	Kind  vmodel.StructKind
	Name  string // description, e.g. Object.id, Object.attachment<iri>, Object.name<text>, Actor.publicKey.owner
	Apply func(v reflect.Value, s string)
	Leaf  string // Go type of the leaf
}

func stringPositions() []stringPos {
	var out []stringPos
	for _, k := range vmodel.Kinds {
		k := k
		for _, f := range k.Fields() {
			f := f
			name := k.Name + "." + f.Term
			switch {
			case f.Type.Kind() == reflect.String:
				out = append(out, stringPos{k, name, func(v reflect.Value, s string) { v.Field(f.Index).SetString(s) }, f.Type.Name()})
			case f.Type == vmodel.NlvT:
				out = append(out,
					stringPos{k, name + "<text>", func(v reflect.Value, s string) {
						v.Field(f.Index).Set(reflect.ValueOf(vocab.NaturalLanguageValues{{Ref: vocab.NilLangRef, Value: vocab.Content(s)}}))
					}, "Content"},
					stringPos{k, name + "<maptext>", func(v reflect.Value, s string) {
						v.Field(f.Index).Set(reflect.ValueOf(vocab.NaturalLanguageValues{{Ref: "en", Value: vocab.Content("plain")}, {Ref: "fr", Value: vocab.Content(s)}}))
					}, "Content"},
					stringPos{k, name + "<map+empty-entry>", func(v reflect.Value, s string) {
						v.Field(f.Index).Set(reflect.ValueOf(vocab.NaturalLanguageValues{{Ref: "en", Value: vocab.Content(s)}, {Ref: "fr", Value: vocab.Content("")}}))
					}, "Content"},
					stringPos{k, name + "<map+two-empty>", func(v reflect.Value, s string) {
						v.Field(f.Index).Set(reflect.ValueOf(vocab.NaturalLanguageValues{{Ref: "de", Value: nil}, {Ref: "en", Value: vocab.Content(s)}, {Ref: "fr", Value: vocab.Content("")}}))
					}, "Content"},
					stringPos{k, name + "<map+untagged-entry>", func(v reflect.Value, s string) {
						v.Field(f.Index).Set(reflect.ValueOf(vocab.NaturalLanguageValues{{Ref: vocab.NilLangRef, Value: vocab.Content(s)}, {Ref: "en", Value: vocab.Content("tagged")}}))
					}, "Content"},
					stringPos{k, name + "<map+untagged-last>", func(v reflect.Value, s string) {
						v.Field(f.Index).Set(reflect.ValueOf(vocab.NaturalLanguageValues{{Ref: "en", Value: vocab.Content("tagged")}, {Ref: "fr", Value: vocab.Content("aussi")}, {Ref: vocab.NilLangRef, Value: vocab.Content(s)}}))
					}, "Content"},
					stringPos{k, name + "<map+repeated-tag>", func(v reflect.Value, s string) {
						v.Field(f.Index).Set(reflect.ValueOf(vocab.NaturalLanguageValues{{Ref: "en", Value: vocab.Content(s)}, {Ref: "fr", Value: vocab.Content("x")}, {Ref: "en", Value: vocab.Content("second")}}))
					}, "Content"},
					stringPos{k, name + "<map+empty-tag>", func(v reflect.Value, s string) {
						v.Field(f.Index).Set(reflect.ValueOf(vocab.NaturalLanguageValues{{Ref: "", Value: vocab.Content(s)}, {Ref: "en", Value: vocab.Content("x")}, {Ref: "fr", Value: vocab.Content("y")}}))
					}, "Content"},
					stringPos{k, name + "<tag>", func(v reflect.Value, s string) {
						v.Field(f.Index).Set(reflect.ValueOf(vocab.NaturalLanguageValues{{Ref: "en", Value: vocab.Content("plain")}, {Ref: vocab.LangRef(s), Value: vocab.Content("other")}}))
					}, "LangRef"})
			case f.Type.Kind() == reflect.Interface:
				out = append(out,
					stringPos{k, name + "<iri>", func(v reflect.Value, s string) { v.Field(f.Index).Set(reflect.ValueOf(vocab.IRI(s))) }, "IRI"},
					stringPos{k, name + "<obj.id>", func(v reflect.Value, s string) {
						v.Field(f.Index).Set(reflect.ValueOf(&vocab.Object{ID: vocab.IRI(s), Type: vocab.NoteType}))
					}, "IRI"})
			case f.Type == vmodel.IcT:
				out = append(out,
					stringPos{k, name + "<[iri]>", func(v reflect.Value, s string) {
						v.Field(f.Index).Set(reflect.ValueOf(vocab.ItemCollection{vocab.IRI("https://example.com/ok"), vocab.IRI(s)}))
					}, "IRI"},
					stringPos{k, name + "<[obj.type]>", func(v reflect.Value, s string) {
						v.Field(f.Index).Set(reflect.ValueOf(vocab.ItemCollection{&vocab.Object{ID: "https://example.com/o", Type: vocab.ActivityVocabularyType(s)}}))
					}, "ActivityVocabularyType"})
			case f.Type == vmodel.SrcT:
				out = append(out,
					stringPos{k, name + ".mediaType", func(v reflect.Value, s string) {
						v.Field(f.Index).Set(reflect.ValueOf(vocab.Source{MediaType: vocab.MimeType(s), Content: vocab.NaturalLanguageValues{{Ref: vocab.NilLangRef, Value: vocab.Content("src")}}}))
					}, "MimeType"},
					stringPos{k, name + ".content", func(v reflect.Value, s string) {
						v.Field(f.Index).Set(reflect.ValueOf(vocab.Source{Content: vocab.NaturalLanguageValues{{Ref: vocab.NilLangRef, Value: vocab.Content(s)}}}))
					}, "Content"})
			case f.Type == vmodel.PkT:
				out = append(out,
					stringPos{k, name + ".id", func(v reflect.Value, s string) {
						v.Field(f.Index).Set(reflect.ValueOf(vocab.PublicKey{ID: vocab.IRI(s), PublicKeyPem: "pem"}))
					}, "IRI"},
					stringPos{k, name + ".owner", func(v reflect.Value, s string) {
						v.Field(f.Index).Set(reflect.ValueOf(vocab.PublicKey{ID: "https://example.com/k", Owner: vocab.IRI(s)}))
					}, "IRI"},
					stringPos{k, name + ".publicKeyPem", func(v reflect.Value, s string) {
						v.Field(f.Index).Set(reflect.ValueOf(vocab.PublicKey{PublicKeyPem: s}))
					}, "string"})
			case f.Type == vmodel.EpPtrT:
				out = append(out, stringPos{k, name + ".sharedInbox", func(v reflect.Value, s string) {
					v.Field(f.Index).Set(reflect.ValueOf(&vocab.Endpoints{SharedInbox: vocab.IRI(s)}))
				}, "IRI"})
			}
		}
	}
	return out
}

var allStringPos = stringPositions()

// emitAll calls every MarshalJSON form of x and runs the emitted-JSON oracle on each output.
func emitAll(c *Ctx, x any, label, class, hostilePos, hostileLeaf string) {
	forms := []struct {
		name string
		fn   func() ([]byte, error)
	}{
		{"method", func() ([]byte, error) { return callMarshal(x, "MarshalJSON") }},
		{"pkg", func() ([]byte, error) { return vocab.MarshalJSON(x.(vocab.Item)) }},
	}
	for _, f := range forms {
		var b []byte
		var err error
		c.Pending("emit " + f.name + " " + label)
		if c.Guard("MarshalJSON."+f.name, func() { b, err = f.fn() }) {
			continue
		}
		c.Eval(1)
		c.Count("outputs", 1)
		if err != nil {
			if f.name == "pkg" {
				// the package form validates what the method wrote; the method form's finding carries the cause
				c.Count("pkg-encode-errors", 1)
				continue
			}
			c.Fail(fmt.Sprintf("emit|%s|%s|encode-error", orStr(hostileLeaf, kindOf(x)), class), fmt.Sprintf("MarshalJSON of %s returned error: %v", label, err),
				map[string]any{"case": label, "error": err.Error()})
			continue
		}
		for _, is := range checkEmitted(x, b) {
			pos := is.Pos
			switch is.Effect {
			case "invalid-json", "string-altered":
				if hostileLeaf != "" {
					pos = hostileLeaf
				} else if is.Effect == "string-altered" {
					pos = is.GoType
				}
			}
			if strings.HasPrefix(is.Effect, "duplicate-member") && hostileLeaf != "" {
				pos = hostileLeaf
			}
			class := class
			if is.Effect == "string-altered" {
				// attribute to the class of the string that was altered, whatever else the value holds
				class = classifyString(is.Held)
				pos = is.GoType
			}
			c.Fail(fmt.Sprintf("emit|%s|%s|%s", pos, class, is.Effect),
				fmt.Sprintf("emitted JSON for %s: %s at %s (%s)", label, is.Effect, is.Pos, is.Detail),
				map[string]any{"case": label, "form": f.name, "position": is.Pos, "hostile_position": hostilePos, "detail": is.Detail, "bytes": clipB(b)})
		}
	}
}

// classifyString names the hostile class of a string (first match wins).
func classifyString(s string) string {
	switch {
	case strings.Contains(s, `\"`):
		return "backslash-quote"
	case !utf8.ValidString(s):
		return "invalid-utf8"
	case strings.ContainsAny(s, "\x00\x01\x02\x03\x04\x05\x06\x07\x08\t\n\x0b\x0c\r\x0e\x0f\x10\x11\x12\x13\x14\x15\x16\x17\x18\x19\x1a\x1b\x1c\x1d\x1e\x1f\x7f"):
		return "control"
	case strings.Contains(s, `\`):
		return "backslash"
	case strings.Contains(s, `"`):
		return "quote"
	case strings.ContainsAny(s, "\u2028\u2029"):
		return "ls-ps"
	}
	return "plain"
}

func orStr(a, b string) string {
	if a != "" {
		return a
	}
	return b
}

func init() {
	nh := len(hostileStrings)
	Register(&Prop{
		ID: "C02",
		Rule: "cases: (a) the exhaustive single-field and field-pair values of C01 with benign strings, (b) exhaustive string-bearing position (found by reflection: ids, IRIs in item and list positions, type, mediaType, formerType, hrefLang, units, rel/href, publicKey id/owner/pem, language tags, text, source) x hostile string (raw and as the tail of an absolute URL), " +
			"(b') every arrangement (length 1-3) of members that have nothing to say (empty IRI, empty object, nil, empty link) and ordinary members in list-valued positions, (c) seeded random nested values with 2-3 hostile strings planted; every MarshalJSON output is parsed by a strict duplicate-detecting reader and matched member by member against the Go value; distinct = fingerprint of (value shape, position, string class); non-trivial = a hostile (non-plain) class or a property beyond id/type",
		Layers: func(tier string) []Layer {
			return []Layer{
				{Name: "benign-single", N: len(singleJSON), Exhaustive: true, Run: func(c *Ctx, idx int) {
					sc := singleJSON[idx]
					g := caseGen(c, true, idx)
					x := g.BuildSingle(sc)
					c.Distinct("benign|"+sc.String(), true)
					if idx%1500 == 0 {
						c.Sample(map[string]any{"case": sc.String()})
					}
					emitAll(c, x, sc.String(), "benign", "", "")
				}},
				{Name: "benign-pair", N: len(pairCases), Exhaustive: true, Run: func(c *Ctx, idx int) {
					pc := pairCases[idx]
					g := caseGen(c, true, idx)
					x := g.BuildPair(pc, false)
					c.Distinct("benign|"+pc.String(), true)
					emitAll(c, x, pc.String(), "benign", "", "")
				}},
				{Name: "degenerate-members", N: len(degenArrangements) * len(degenHosts), Exhaustive: true, Run: func(c *Ctx, idx int) {
					arr := degenArrangements[idx/len(degenHosts)]
					host := degenHosts[idx%len(degenHosts)]
					x, label := host.Build(buildDegenList(arr))
					label += " := [" + strings.Join(arr, ",") + "]"
					c.Distinct("degenerate|"+label, true)
					c.Count("degenerate", 1)
					if idx%700 == 0 {
						c.Sample(map[string]any{"case": label})
					}
					emitAll(c, x, label, "degenerate", "", "")
				}},
				{Name: "constructed", N: len(allConstructed), Exhaustive: true, Run: func(c *Ctx, idx int) {
					cv := allConstructed[idx]
					c.Distinct("constructed|"+cv.Label, true)
					emitAll(c, cv.Make(), "constructed "+cv.Label, "benign", "", "")
				}},
				{Name: "odd-numbers", N: len(oddNumberCases), Exhaustive: true, Run: func(c *Ctx, idx int) {
					oc := oddNumberCases[idx]
					p := oc.Kind.New()
					v := reflect.ValueOf(p).Elem()
					v.FieldByName("ID").Set(reflect.ValueOf(vocab.IRI("https://example.com/numbers")))
					v.FieldByName("Type").Set(reflect.ValueOf(vocab.ActivityVocabularyType(oc.Kind.SpecificType())))
					oc.Set(v.Field(oc.Field.Index))
					label := fmt.Sprintf("%s.%s := %s", oc.Kind.Name, oc.Field.Term, oc.Name)
					c.Distinct("number|"+label, true)
					c.Count("odd-numbers", 1)
					emitAll(c, p, label, "number:"+oc.Class, "", "")
				}},
				{Name: "hostile-single", N: len(allStringPos) * nh * 2, Exhaustive: true, Run: func(c *Ctx, idx int) {
					sp := allStringPos[idx/(nh*2)]
					h := hostileStrings[(idx/2)%nh]
					s := h.S
					form := "raw"
					if idx%2 == 1 {
						s = "https://example.com/p/" + h.S
						form = "url-tail"
					}
					p := sp.Kind.New()
					v := reflect.ValueOf(p).Elem()
					v.FieldByName("ID").Set(reflect.ValueOf(vocab.IRI("https://example.com/top")))
					v.FieldByName("Type").Set(reflect.ValueOf(vocab.ActivityVocabularyType(sp.Kind.SpecificType())))
					sp.Apply(v, s)
					label := fmt.Sprintf("%s := %s %q", sp.Name, form, s)
					c.Distinct("hostile|"+sp.Name+"|"+h.Class+"|"+form, h.Class != "plain")
					c.Count("class:"+h.Class, 1)
					c.Count("leaf:"+sp.Leaf, 1)
					if idx%4000 == 7 {
						c.Sample(map[string]any{"case": label})
					}
					emitAll(c, p, label, h.Class, sp.Name, sp.Leaf)
				}},
				{Name: "hostile-random", N: tierN(tier, 8000, 200000), Run: func(c *Ctx, idx int) {
					g := caseGen(c, false, idx)
					k := vmodel.Kinds[g.R.Intn(len(vmodel.Kinds))]
					g.PSet = 0.2
					p := g.Struct(k, 1, true)
					v := reflect.ValueOf(p).Elem()
					var mine []stringPos
					for _, sp := range allStringPos {
						if sp.Kind.Name == k.Name {
							mine = append(mine, sp)
						}
					}
					n := 2 + g.R.Intn(2)
					label := "random " + k.Name
					classes := []string{}
					leaf := ""
					for i := 0; i < n; i++ {
						sp := mine[g.R.Intn(len(mine))]
						h := hostileStrings[g.R.Intn(nh)]
						s := h.S
						if g.R.Intn(2) == 0 {
							s = "https://example.com/p/" + s
						}
						sp.Apply(v, s)
						label += fmt.Sprintf(" ; %s := %q", sp.Name, s)
						classes = append(classes, h.Class)
						leaf = sp.Leaf
					}
					cls := "multi:" + strings.Join(uniqStrings(classes), "+")
					c.Distinct("hostile-random|"+label, true)
					// with several hostile strings the offending position is attributed by the checker where it can
					_ = leaf
					emitAll(c, p, label, cls, "", "")
				}},
			}
		},
		Floors: func(tier string) map[string]int64 {
			return map[string]int64{"outputs": 100000}
		},
		Assumptions: []string{
			"encoding/json (Valid, Decoder tokens) is the authority on JSON syntax and string decoding",
			"for strings that are not valid UTF-8 only validity and member structure are required (JSON cannot carry them byte for byte)",
			"a member for an unset property is tolerated when it carries the zero value (totalItems:0, closed:false)",
		},
	})
}

// degenerate members: items that have nothing to say, in every position of short lists
var degenAlphabet = []string{"empty-iri", "empty-obj", "empty-objv", "nil", "empty-link", "iri", "obj"}

var degenArrangements = func() [][]string {
	var out [][]string
	n := len(degenAlphabet)
	for l := 1; l <= 3; l++ {
		tot := 1
		for i := 0; i < l; i++ {
			tot *= n
		}
		for k := 0; k < tot; k++ {
			a := make([]string, l)
			x := k
			for i := range a {
				a[i] = degenAlphabet[x%n]
				x /= n
			}
			out = append(out, a)
		}
	}
	return out
}()

func buildDegenList(arr []string) vocab.ItemCollection {
	out := vocab.ItemCollection{}
	for i, a := range arr {
		switch a {
		case "empty-iri":
			out = append(out, vocab.IRI(""))
		case "empty-obj":
			out = append(out, &vocab.Object{})
		case "empty-objv":
			out = append(out, vocab.Object{})
		case "nil":
			out = append(out, nil)
		case "empty-link":
			out = append(out, &vocab.Link{})
		case "iri":
			out = append(out, vocab.IRI(fmt.Sprintf("https://example.com/m/%d", i)))
		case "obj":
			out = append(out, &vocab.Object{ID: vocab.IRI(fmt.Sprintf("https://example.com/o/%d", i)), Type: vocab.NoteType})
		}
	}
	return out
}

type degenHost struct {
	Name  string
	Build func(l vocab.ItemCollection) (any, string)
}

var degenHosts = []degenHost{
	{"Object.to", func(l vocab.ItemCollection) (any, string) {
		return &vocab.Object{ID: "https://example.com/top", Type: vocab.NoteType, To: l}, "Object.to"
	}},
	{"Object.tag+published", func(l vocab.ItemCollection) (any, string) {
		return &vocab.Object{ID: "https://example.com/top", Type: vocab.NoteType, Tag: l, Published: time.Unix(1600000000, 0).UTC()}, "Object.tag (+published)"
	}},
	{"Object.audience", func(l vocab.ItemCollection) (any, string) {
		return &vocab.Object{ID: "https://example.com/top", Type: vocab.NoteType, Audience: l}, "Object.audience"
	}},
	{"Object.attachment<list>", func(l vocab.ItemCollection) (any, string) {
		return &vocab.Object{ID: "https://example.com/top", Type: vocab.NoteType, Attachment: l}, "Object.attachment<list>"
	}},
	{"Activity.bcc+object<list>", func(l vocab.ItemCollection) (any, string) {
		return &vocab.Activity{ID: "https://example.com/top", Type: vocab.CreateType, BCC: l, Object: l}, "Activity.bcc and .object<list>"
	}},
	{"OrderedCollection.orderedItems", func(l vocab.ItemCollection) (any, string) {
		return &vocab.OrderedCollection{ID: "https://example.com/top", Type: vocab.OrderedCollectionType, OrderedItems: l}, "OrderedCollection.orderedItems"
	}},
	{"CollectionPage.items", func(l vocab.ItemCollection) (any, string) {
		return &vocab.CollectionPage{ID: "https://example.com/top", Type: vocab.CollectionPageType, Items: l}, "CollectionPage.items"
	}},
	{"Actor.streams", func(l vocab.ItemCollection) (any, string) {
		return &vocab.Actor{ID: "https://example.com/top", Type: vocab.PersonType, Streams: l}, "Actor.streams"
	}},
	{"top-level list", func(l vocab.ItemCollection) (any, string) { return l, "top-level ItemCollection" }},
}

func uniqStrings(s []string) []string {
	seen := map[string]bool{}
	var out []string
	for _, x := range s {
		if !seen[x] {
			seen[x] = true
			out = append(out, x)
		}
	}
	return out
}
