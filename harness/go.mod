module verif/harness

go 1.23

require (
	github.com/go-ap/activitypub v0.0.0
	github.com/valyala/fastjson v1.6.4
)

require (
	git.sr.ht/~mariusor/go-xsd-duration v0.0.0-20220703122237-02e73435a078 // indirect
	github.com/go-ap/errors v0.0.0-20240910140019-1e9d33cc1568 // indirect
	github.com/go-ap/jsonld v0.0.0-20221030091449-f2a191312c73 // indirect
)

replace github.com/go-ap/activitypub => /repo
