// Package trace holds the records exchanged between the child (vdrive) and the supervisor (vsup).
package trace

// Finding is one oracle failure observed on one case.
type Finding struct {
	Prop   string         `json:"property"`
	Sig    string         `json:"signature"`
	What   string         `json:"what"`
	Layer  string         `json:"layer"`
	Index  int            `json:"index"`
	Seed   int64          `json:"seed"`
	Build  string         `json:"build,omitempty"`
	Detail map[string]any `json:"detail,omitempty"`
}

// Result is what a child writes when its shard is complete.
type Result struct {
	Done      bool             `json:"done"`
	Prop      string           `json:"property"`
	Build     string           `json:"build"`
	Shard     int              `json:"shard"`
	Evals     int64            `json:"evaluations"`
	Counters  map[string]int64 `json:"counters"`
	Findings  []Finding        `json:"findings"`
	SigCounts map[string]int   `json:"sig_counts"`
	Samples   []any            `json:"samples"`
	FPs       []uint64         `json:"fps"`
	NonTriv   []uint64         `json:"nontrivial"`
	Cases     int64            `json:"cases"`
	LayerN    map[string]int   `json:"layer_n"`
	LayerEx   map[string]bool  `json:"layer_exhaustive"`
}
